"""C15 -- interfeatures, introns, splice sites: exact gap geometry.

Decided by abstract evaluation (no execution) of FeatureDB.interfeatures /
create_introns / create_splice_sites on small lists of features whose
coordinates sit on the threshold points of the order predicates involved
(gap of 2, 1, 0, -1 bases; equal and different seqids and strands) and whose
attributes are symbolic.  What is yielded -- coordinates, type, strand,
attributes, the arguments handed to merge_attributes and to children() -- is
compared with what the property prescribes.
"""
import ast

from ..absint import Interp, Sym, Opaque, Unsupported
from ..model import norm
from ..util import require_func


def feat(name, chrom, start, end, strand="+", ft="exon", attrs=None):
    F = Opaque(name, "Feature")
    F.attrs.update(dict(id=name, seqid=chrom, source="src", featuretype=ft, start=start, end=end, score=".", strand=strand, frame=".",
                        attributes=attrs if attrs is not None else {"ID": [name]}, extra=[], bin=1, dialect=None, keep_order=False,
                        sort_attribute_values=False))
    return F


def snapshot(F):
    return {k: (dict(v) if isinstance(v, dict) else v) for k, v in F.attrs.items()}


class Harness:
    def __init__(self, ctx):
        self.ctx = ctx
        self.merge_calls = []
        self.children_calls = []

    def interp(self, strand="+", exons=None, isoforms=None):
        it = Interp(self.ctx)
        H = self
        self.real_merge = getattr(self, "real_merge", False)

        def fr(i, pos, kw, node):
            o = Opaque("new", "Feature")
            o.attrs.update(kw)
            return o

        def ma(i, pos, kw, node):
            H.merge_calls.append((list(pos), dict(kw)))
            out = {}
            for a in pos:
                if isinstance(a, dict):
                    for k, v in a.items():
                        out.setdefault(k, [])
                        out[k] = out[k] + [x for x in v if x not in out[k]]
            return out

        def ch(i, pos, kw, node):
            H.children_calls.append((list(pos), dict(kw)))
            if isoforms is not None:
                # {transcript: [(start, end), ...]}: every transcript has its own exon features
                if kw.get("featuretype") is None:
                    return [feat(n_, "chr1", 1, 1000, strand=strand, ft="mRNA", attrs={"ID": [n_]}) for n_ in isoforms]
                tn = getattr(pos[0], "name", None) if pos else None
                return [feat("%s.e%d" % (tn, k_), "chr1", a_, b_, strand=strand, attrs={"Parent": [tn]}) for k_, (a_, b_) in enumerate(isoforms.get(tn, []))]
            if kw.get("featuretype") is None:
                return [feat("T", "chr1", 1, 100, strand=strand, ft="mRNA")]
            return list(exons) if exons is not None else [feat("E1", "chr1", 10, 20, strand=strand), feat("E2", "chr1", 30, 40, strand=strand)]
        it.summaries["interface.FeatureDB._feature_returner"] = fr
        if not self.real_merge:
            it.summaries["helpers.merge_attributes"] = ma
        it.summaries["interface.FeatureDB.features_of_type"] = lambda i, pos, kw, node: [feat("G", "chr1", 1, 100, ft="gene")]
        it.summaries["interface.FeatureDB.children"] = ch
        return it

    def run(self, func, args, **kw):
        it = self.interp(**kw)
        so = Opaque("self", "FeatureDB")
        so.attrs["dialect"] = Opaque("DIALECT", "dict")
        try:
            traces = it.run(func, args, self_obj=so)
        except Unsupported as e:
            self.ctx.require(False, "%s outside the analysable subset: %s" % (func.qual, e))
        self.ctx.require(len(traces) == 1, "%s forks on concrete input (%d paths)" % (func.qual, len(traces)))
        t = traces[0]
        ys = [e[1] for e in t.events if e[0] == "yield"]
        return ys, t


def gaps(ys):
    return [(y.attrs.get("seqid"), y.attrs.get("start"), y.attrs.get("end")) if isinstance(y, Opaque) else y for y in ys]


def check(ctx):
    ctx.explanation = (
        "interfeatures, create_introns and create_splice_sites are evaluated abstractly (partitioned dataflow; no execution) on short lists of "
        "features placed on the threshold points of the order predicates involved: neighbours 2, 1, 0 and -1 bases apart, seqid changes "
        "(also right after a gap), equal/different strands, given/automatic type, attribute merging on/off with symbolic values. The yielded "
        "features, and the arguments reaching merge_attributes and children(), are compared with the property. Does not decide the N-1 law "
        "or exact outputs over all ordered lists (runtime data); the scenarios cover each decision of the code once.")
    f = require_func(ctx, "interface.FeatureDB.interfeatures")
    H = Harness(ctx)
    fp = [p for p in f.params if p != "self"][0]
    # ------------------------------------------------------------- R1 / R2 geometry
    for label, b_start, want in (("two bases apart", 23, [("chr1", 21, 22)]), ("one base apart", 22, [("chr1", 21, 21)]),
                                 ("touching", 21, []), ("overlapping by one", 20, []), ("nested", 12, [])):
        ys, t = H.run(f, {fp: [feat("A", "chr1", 10, 20), feat("B", "chr1", b_start, 40)]})
        rule = "R1" if want else "R2"
        ctx.ob(rule, gaps(ys) == want,
               "the gap between neighbours is previous.end+1 .. next.start-1; touching or overlapping neighbours produce no feature (one-base gaps are kept)",
               func=f, sig="A=10..20, B=%d..40 (%s) -> %s" % (b_start, label, gaps(ys)))
    ys, t = H.run(f, {fp: [feat("A", "chr1", 10, 20), feat("B", "chr1", 30, 40), feat("C", "chr1", 50, 60)]})
    ctx.ob("R1", gaps(ys) == [("chr1", 21, 29), ("chr1", 41, 49)], "every adjacent pair yields its gap, in order (after each pair the current feature becomes the previous one)", func=f,
           sig="three features -> %s" % gaps(ys))
    ys, t = H.run(f, {fp: [feat("A", "chr1", 200000, 200010), feat("B", "chr1", 400000, 400010)]})
    okb = len(ys) == 1 and isinstance(ys[0], Opaque) and ys[0].attrs.get("bin") == _bin_of(ctx, 200011, 399999)
    ctx.ob("R1", okb, "the gap's bin is recomputed from its final coordinates", func=f, sig="gap 200011..399999 bin %s" % (ys[0].attrs.get("bin") if ys and isinstance(ys[0], Opaque) else None),
           nontrivial=False)
    ys, t = H.run(f, {fp: [feat("A", "chr1", 10, 20)]})
    ctx.ob("R1", ys == [], "a single feature has no neighbour, hence no gap", func=f, sig="one feature -> %s" % gaps(ys), nontrivial=False)
    ys, t = H.run(f, {fp: []})
    ctx.ob("R1", ys == [], "no features, no gaps", func=f, sig="no features -> %s" % gaps(ys), nontrivial=False)
    if ctx.tier == "thorough":
        import itertools
        P = 6
        ivs = [(a_, b_) for a_ in range(1, P + 1) for b_ in range(a_, P + 1)]
        n_lists = 0
        bad = None
        for n_ in (2, 3):
            for combo in itertools.product(ivs, repeat=n_):
                if any(combo[i][0] > combo[i + 1][0] for i in range(n_ - 1)):
                    continue
                for chroms in itertools.product(("chr1", "chr2"), repeat=n_):
                    n_lists += 1
                    ys, t = H.run(f, {fp: [feat("f%d" % i, chroms[i], iv[0], iv[1]) for i, iv in enumerate(combo)]})
                    want = []
                    for i in range(n_ - 1):
                        if chroms[i] == chroms[i + 1] and combo[i][1] + 1 <= combo[i + 1][0] - 1:
                            want.append((chroms[i], combo[i][1] + 1, combo[i + 1][0] - 1))
                    if gaps(ys) != want and bad is None:
                        bad = (list(zip(chroms, combo)), gaps(ys), want)
        ctx.ob("R1", bad is None, "every adjacent pair on one seqid yields previous.end+1 .. next.start-1 when that is non-empty, nothing else is yielded: all %d "
               "start-ordered lists of two or three intervals over six positions and two seqids agree with the reference" % n_lists, func=f,
               sig="exhaustive small lists agree with the reference gaps" if bad is None else "list %s -> %s, reference %s" % bad)
        ctx.extra["exhaustive_lists"] = n_lists
    # ------------------------------------------------------------- R3 seqid changes
    ys, t = H.run(f, {fp: [feat("A", "chr1", 10, 20), feat("B", "chr2", 30, 40)]})
    ctx.ob("R3", ys == [], "no feature is emitted when the seqid changes (no gap spans two sequences)", func=f, sig="chr1 then chr2 -> %s" % gaps(ys))
    ys, t = H.run(f, {fp: [feat("A", "chr1", 10, 20), feat("B", "chr1", 30, 40), feat("C", "chr2", 5, 9), feat("D", "chr2", 20, 30)]})
    ctx.ob("R3", gaps(ys) == [("chr1", 21, 29), ("chr2", 10, 19)],
           "a change of seqid neither re-emits the previous gap nor drops the next one: the first feature of the new seqid becomes the previous feature", func=f,
           sig="chr1 x2 then chr2 x2 -> %s" % gaps(ys))
    ys, t = H.run(f, {fp: [feat("A", "chr1", 10, 20), feat("C", "chr2", 5, 9), feat("D", "chr2", 20, 30), feat("E", "chr1", 50, 60)]})
    ctx.ob("R3", gaps(ys) == [("chr2", 10, 19)], "each run of one seqid is handled on its own", func=f, sig="chr1, chr2 x2, chr1 -> %s" % gaps(ys), nontrivial=False)
    # ------------------------------------------------------------- R4 strand and type
    for sa, sb, want in (("+", "+", "+"), ("-", "-", "-"), ("+", "-", "."), ("-", "+", "."), (".", "+", ".")):
        ys, t = H.run(f, {fp: [feat("A", "chr1", 10, 20, strand=sa), feat("B", "chr1", 30, 40, strand=sb)]})
        got = ys[0].attrs.get("strand") if ys and isinstance(ys[0], Opaque) else None
        ctx.ob("R4", got == want, "equal strands are kept, different strands give '.'", func=f, sig="strands %s,%s -> %r" % (sa, sb, got))
    for strands, want in ((("+", "-", "-"), [".", "-"]), (("-", "+", "+"), [".", "+"]), (("+", "+", "-"), ["+", "."])):
        ys, t = H.run(f, {fp: [feat("A", "chr1", 10, 20, strand=strands[0]), feat("B", "chr1", 30, 40, strand=strands[1]), feat("C", "chr1", 50, 60, strand=strands[2])]})
        got = [y.attrs.get("strand") for y in ys if isinstance(y, Opaque)]
        ctx.ob("R4", got == want, "each gap's strand is decided from its own two neighbours (nothing carries over from an earlier pair)", func=f,
               sig="strands %s -> %s" % (",".join(strands), got))
    ys, t = H.run(f, {fp: [feat("A", "chr1", 10, 20, ft="exon"), feat("B", "chr1", 30, 40, ft="CDS")]})
    got = ys[0].attrs.get("featuretype") if ys and isinstance(ys[0], Opaque) else None
    ctx.ob("R4", got == "inter_exon_CDS", "without new_featuretype the type is inter_<previous type>_<next type>", func=f, sig="automatic type %r" % (got,))
    ys, t = H.run(f, {fp: [feat("A", "chr1", 10, 20), feat("B", "chr1", 30, 40)], "new_featuretype": "intron"})
    got = ys[0].attrs.get("featuretype") if ys and isinstance(ys[0], Opaque) else None
    ctx.ob("R4", got == "intron", "a given new_featuretype is used as is", func=f, sig="type when given: %r" % (got,))
    ys, t = H.run(f, {fp: [feat("A", "chr1", 10, 20), feat("B", "chr1", 30, 40)]})
    got = ys[0].attrs.get("source") if ys and isinstance(ys[0], Opaque) else None
    ctx.ob("R4", got == "gffutils_derived", "derived features are marked by their source", func=f, sig="gap source %r" % (got,), nontrivial=False)
    # ------------------------------------------------------------- R5 attributes
    v1, v2, v3 = Sym("v1", "str", True), Sym("v2", "str", True), Sym("v3", "str", True)
    A = feat("A", "chr1", 10, 20, attrs={"ID": [v1], "x": [v2]})
    B = feat("B", "chr1", 30, 40, attrs={"ID": [v3]})
    ns = Sym("numeric_sort", "any", True)
    H.merge_calls = []
    ys, t = H.run(f, {fp: [A, B], "merge_attributes": True, "numeric_sort": ns})
    ok = len(H.merge_calls) == 1 and len(H.merge_calls[0][0]) == 2 and H.merge_calls[0][0][0] == A.attrs["attributes"] and H.merge_calls[0][0][1] == B.attrs["attributes"] \
        and getattr(H.merge_calls[0][1].get("numeric_sort"), "name", None) == "numeric_sort"
    ctx.ob("R5", ok, "attributes are united by helpers.merge_attributes over (previous, next) with the caller's numeric_sort", func=f,
           sig="merge_attributes called %d time(s)%s" % (len(H.merge_calls), " with (previous, next, numeric_sort)" if ok else ""))
    got = ys[0].attrs.get("attributes") if ys and isinstance(ys[0], Opaque) else None
    okj = isinstance(got, dict) and list(got.get("x", [])) == [v2] and len(got.get("ID", [])) == 1 and _render(got["ID"][0]) == "v1-v3"
    ctx.ob("R5", okj, "the gap carries the united attributes; several ID values are joined by '-' into one", func=f,
           sig="gap attributes %s" % ({k: [_render(x) for x in v] for k, v in got.items()} if isinstance(got, dict) else got))
    # ...end to end with the package's own merge_attributes, on concrete values: per key the sorted duplicate-free union,
    # also for keys only one neighbour has
    H.real_merge = True
    A2 = feat("A", "chr1", 10, 20, attrs={"ID": ["e1"], "Dbxref": ["UniProt:P1", "EMBL:X2", "UniProt:P1"], "n": ["9"]})
    B2 = feat("B", "chr1", 30, 40, attrs={"ID": ["e2"], "n": ["10"], "tag": ["z", "a"]})
    for numeric in (False, True):
        ys, t = H.run(f, {fp: [A2, B2], "merge_attributes": True, "numeric_sort": numeric})
        got = ys[0].attrs.get("attributes") if ys and isinstance(ys[0], Opaque) else None
        want = {"ID": ["e1-e2"], "Dbxref": ["EMBL:X2", "UniProt:P1"], "n": ["9", "10"] if numeric else ["10", "9"], "tag": ["a", "z"]}
        shown = {k: [_render(x) for x in v] for k, v in got.items()} if isinstance(got, dict) else got
        ctx.ob("R5", shown == want, "the gap's attributes are the per-key sorted duplicate-free union of both neighbours' values (numeric_sort=%s), keys of one neighbour only included" % numeric, func=f,
               sig="united attributes as specified (numeric_sort=%s)" % numeric if shown == want else "numeric_sort=%s: gap attributes %s" % (numeric, shown))
    H.real_merge = False
    H.merge_calls = []
    ys, t = H.run(f, {fp: [A, B], "merge_attributes": False})
    got = ys[0].attrs.get("attributes") if ys and isinstance(ys[0], Opaque) else None
    ctx.ob("R5", not H.merge_calls and got == {}, "...exactly when merge_attributes is on (otherwise the gap has no attributes)", func=f,
           sig="merge off: %d merge call(s), attributes %s" % (len(H.merge_calls), got), nontrivial=False)
    ys, t = H.run(f, {fp: [feat("A", "chr1", 10, 20, attrs={"ID": [v1]}), feat("B", "chr1", 30, 40, attrs={"ID": [v1]})], "update_attributes": {"ID": [v2], "note": [v3]}})
    got = ys[0].attrs.get("attributes") if ys and isinstance(ys[0], Opaque) else None
    ok = isinstance(got, dict) and list(got.get("ID", [])) == [v2] and list(got.get("note", [])) == [v3]
    ctx.ob("R5", ok, "update_attributes is applied after the union", func=f, sig="with update_attributes: %s" % ({k: [_render(x) for x in v] for k, v in got.items()} if isinstance(got, dict) else got))
    tf = lambda pos, kw: {"seen": [Sym("af", "str", True)]}
    from ..absint import Callback
    H.merge_calls = []
    ys, t = H.run(f, {fp: [A, B], "attribute_func": Callback("attribute_func", None, fn=tf)})
    ok = len(H.merge_calls) == 1 and all(isinstance(a, dict) and list(a) == ["seen"] for a in H.merge_calls[0][0])
    ctx.ob("R5", ok, "a given attribute_func is applied to both attribute sets before the union", func=f, sig="attribute_func applied to %d of 2 inputs" % (
        sum(1 for a in (H.merge_calls[0][0] if H.merge_calls else []) if isinstance(a, dict) and list(a) == ["seen"])), nontrivial=False)
    # ------------------------------------------------------------- R8 inputs untouched
    A, B, C = feat("A", "chr1", 10, 20, attrs={"ID": [v1]}), feat("B", "chr1", 30, 40, attrs={"ID": [v2]}), feat("C", "chr2", 5, 9)
    before = [snapshot(x) for x in (A, B, C)]
    # the harness hands the very objects to the code under evaluation (no copy): compare after the run
    it = H.interp()
    so = Opaque("self", "FeatureDB")
    try:
        traces = it.run(f, {fp: [A, B, C]}, self_obj=so, copy_args=False)
    except Unsupported as e:
        ctx.require(False, "interfeatures outside the analysable subset: %s" % e)
    after = [snapshot(x) for x in (A, B, C)]
    changed = [x.name for x, b_, a_ in zip((A, B, C), before, after) if repr(sorted(b_.items(), key=str)) != repr(sorted(a_.items(), key=str))]
    ctx.ob("R8", not changed, "interfeatures never stores into its input features", func=f, sig="no store through the inputs" if not changed else "inputs changed by the call: %s" % changed)
    # ------------------------------------------------------------- R6 / R7 splice sites and introns
    ss = require_func(ctx, "interface.FeatureDB.create_splice_sites")
    want_t = {("left", "+"): "five_prime_cis_splice_site", ("left", "-"): "three_prime_cis_splice_site",
              ("right", "+"): "three_prime_cis_splice_site", ("right", "-"): "five_prime_cis_splice_site",
              ("left", "."): "splice_site", ("right", "."): "splice_site"}
    eft = Sym("exon_featuretype", "str", True)
    for strand in "+-.":
        H.children_calls = []
        ys, t = H.run(ss, {"exon_featuretype": eft}, strand=strand)
        got = [(y.attrs.get("start"), y.attrs.get("end"), y.attrs.get("featuretype")) for y in ys if isinstance(y, Opaque)]
        left = [g for g in got if g[:2] == (21, 22)]
        right = [g for g in got if g[:2] == (28, 29)]
        ctx.ob("R6", len(got) == 2 and len(left) == 1 and len(right) == 1, "both sides of every intron are produced: the left site is [start, start+1], the right site [end-1, end]", func=ss,
               sig="strand %s: intron 21..29 -> sites %s" % (strand, [g[:2] for g in got]))
        for side, g in (("left", left), ("right", right)):
            lab = g[0][2] if g else None
            ctx.ob("R6", lab == want_t[(side, strand)], "a %s site on a '%s' transcript is labelled %s" % (side, strand, want_t[(side, strand)]), func=ss,
                   sig="label(%s, %s) = %s" % (side, strand, lab))
        _children_rule(ctx, H, ss, eft)
    ci = require_func(ctx, "interface.FeatureDB.create_introns")
    H.children_calls = []
    H.merge_calls = []
    ys, t = H.run(ci, {"exon_featuretype": eft, "numeric_sort": ns})
    got = [(y.attrs.get("start"), y.attrs.get("end"), y.attrs.get("featuretype")) for y in ys if isinstance(y, Opaque)]
    ctx.ob("R7", got == [(21, 29, "intron")], "create_introns yields the gaps between a transcript's exons, typed 'intron'", func=ci, sig="exons 10..20, 30..40 -> %s" % got)
    _children_rule(ctx, H, ci, eft)
    first_merge_calls = list(H.merge_calls)
    # per transcript: isoforms that share exon coordinates each get their own n-1 introns
    for label, iso in (("two isoforms with the same first gap", {"T1": [(100, 200), (301, 400)], "T2": [(100, 200), (301, 450), (500, 600)]}),
                       ("two identical isoforms and one without gaps", {"T1": [(10, 20), (30, 40)], "T2": [(10, 20), (30, 40)], "T3": [(10, 40)]})):
        for ma_ in (True, False):
            ys, t = H.run(ci, {"merge_attributes": ma_}, isoforms=iso)
            got = sorted((y.attrs.get("start"), y.attrs.get("end")) for y in ys if isinstance(y, Opaque))
            want = sorted((a[1] + 1, b[0] - 1) for ex in iso.values() for a, b in zip(ex, ex[1:]))
            ctx.ob("R7", got == want, "a transcript with n exons gets n-1 introns, whatever other transcripts look like (%s)" % label, func=ci,
                   sig="%s, merge_attributes=%s: one intron per gap per transcript" % (label, ma_) if got == want else "%s, merge_attributes=%s: introns %s, gaps %s" % (label, ma_, got, want),
                   nontrivial=ma_)
    H.merge_calls = first_merge_calls
    ok = len(H.merge_calls) == 1 and getattr(H.merge_calls[0][1].get("numeric_sort"), "name", None) == "numeric_sort"
    ctx.ob("R7", ok, "create_introns forwards merge_attributes / numeric_sort to interfeatures", func=ci, sig="merge_attributes reached with numeric_sort=%s" % (
        H.merge_calls[0][1].get("numeric_sort") if H.merge_calls else None), nontrivial=False)
    H.merge_calls = []
    ys, t = H.run(ci, {"merge_attributes": False})
    ctx.ob("R7", not H.merge_calls, "create_introns(merge_attributes=False) does not merge", func=ci, sig="%d merge call(s)" % len(H.merge_calls), nontrivial=False)
    for g_ in (ci, ss):
        for gp, par in ((Sym("gp", "str", True), Sym("p", "str", True)), (None, None)):
            it = H.interp()
            try:
                traces = it.run(g_, {"grandparent_featuretype": gp, "parent_featuretype": par}, self_obj=Opaque("self", "FeatureDB"))
            except Unsupported as e:
                ctx.require(False, "%s outside the analysable subset: %s" % (g_.qual, e))
            ok = all(t_.result[0] == "raise" and t_.result[1] == "ValueError" for t_ in traces)
            ctx.ob("R7", ok, "%s wants exactly one of grandparent_featuretype / parent_featuretype" % g_.name, func=g_,
                   sig="%s(%s) -> %s" % (g_.name, "both" if gp is not None else "neither", sorted({t_.result[1] if t_.result[0] == "raise" else "ok" for t_ in traces})), nontrivial=False)


def _children_rule(ctx, H, g, eft):
    exq = [c for c in H.children_calls if c[1].get("featuretype") is not None]
    ok = bool(exq) and all(c[1].get("level") == 1 and getattr(c[1].get("featuretype"), "name", None) == "exon_featuretype" and c[1].get("order_by") == "start"
                           and not c[1].get("reverse") and c[0] and getattr(c[0][0], "name", None) == "T" for c in exq)
    ctx.ob("R7", ok, "%s takes each transcript's level-1 exons of the requested type ordered by start" % g.name, func=g,
           sig="%s exon queries: %s" % (g.name, sorted({str(sorted((k, getattr(v, "name", v)) for k, v in c[1].items())) for c in exq})))
    trq = [c for c in H.children_calls if c[1].get("featuretype") is None]
    ok = bool(trq) and all(c[1].get("level") == 1 and c[0] and getattr(c[0][0], "name", None) == "G" for c in trq)
    ctx.ob("R7", ok, "%s: transcripts are the level-1 children of each grandparent feature" % g.name, func=g,
           sig="%s transcript queries: %s" % (g.name, sorted({str(sorted((k, getattr(v, "name", v)) for k, v in c[1].items())) for c in trq})), nontrivial=False)


def _render(x):
    return x.render().replace("⟦", "").replace("⟧", "") if hasattr(x, "render") else getattr(x, "name", x)


def gap_bin_obligation(ctx, rule="R1"):
    """The feature interfeatures makes for a gap is binned by the gap's own coordinates (two scenarios on different levels)."""
    from ..binsmodel import spec_bins
    f = require_func(ctx, "interface.FeatureDB.interfeatures")
    H = Harness(ctx)
    fp = [p for p in f.params if p != "self"][0]
    for a, b in (((200000, 200010), (400000, 400010)), ((10, 20), (1100000, 1100010))):
        ys, t = H.run(f, {fp: [feat("A", "chr1", a[0], a[1]), feat("B", "chr1", b[0], b[1])]})
        want = spec_bins(a[1] + 1, b[0] - 1, "gff", True)
        got = ys[0].attrs.get("bin") if len(ys) == 1 and isinstance(ys[0], Opaque) else None
        ctx.ob(rule, got == want, "the gap's bin is the smallest bin containing its final coordinates (bins(start, end) of the new feature itself)", func=f,
               sig="gap %d..%d bin %s" % (a[1] + 1, b[0] - 1, "= bins(start, end)" if got == want else "%s, bins(start, end) = %s" % (got, want)), nontrivial=False)


def _bin_of(ctx, start, end):
    from ..binsmodel import spec_bins
    return spec_bins(start, end, "gff", True)


