"""C12 -- genomic binning.

R1  the folded constants describe the 5-level UCSC scheme (128 kb .. 512 Mb);
R2  one=True returns one integer for every coordinate pair (interval abstract
    interpretation: the fall-through that returns the set is unreachable);
R3  the guards' fallback domain equals the statement's out-of-range domain and
    returns 1 / {1};
R4  per level the single-bin result and the range added to the set are the
    scheme's formulas (shift-normal-form comparison) -- the premises of the
    soundness argument in specs/bins_proof.md.
"""
import ast

from ..binsai import BinsInterp, AInt, ASet, Form, INF
from ..binsmodel import bins_consts, fallback_predicate
from ..util import require_func

LEVELS = 5
FINEST = 17  # 128 kb
STEP = 3


def spec_offset(k):
    return (8 ** (LEVELS - k) - 1) // 7


def check(ctx):
    f = require_func(ctx, "bins.bins")
    consts = bins_consts(ctx)
    ctx.explanation = (
        "bins.bins is evaluated (own evaluator over the source; gffutils is not imported) on a threshold grid -- every place where some "
        "level's bin changes, under both start conventions, and the range limits, paired with the stops that straddle the next boundary of "
        "every level -- and compared with the scheme of the statement written independently in the checker: result type per mode, the "
        "fallback domain, the single bin and the bin set. When the code is inside the subset of the shift-form abstract interpretation "
        "(intervals + the normal form ((param - a) >> b) + c, level loop unrolled over the folded OFFSETS, one/fmt partitioned) the same "
        "obligations are also discharged for every integer pair; otherwise a NOTE says the grid alone decided. The folded constants are "
        "compared with the 5-level scheme. The monotonicity argument that turns the per-level formulas into 'a feature's bin is in the bin "
        "set of every overlapping interval' is written in specs/bins_proof.md. Does not decide tightness beyond the grid.")
    # ------------------------------------------------------------------ R1
    offs = consts["OFFSETS"]
    ok = list(offs) == [spec_offset(k) for k in range(LEVELS)]
    ctx.ob("R1", ok, "OFFSETS are the first bin numbers of the 5 levels, finest first: (8^(5-k)-1)/7", func=f,
           sig="OFFSETS = %s" % list(offs))
    ctx.ob("R1", consts["FIRST_SHIFT"] == FINEST, "finest bins are 128 kb (FIRST_SHIFT = 17)", func=f,
           sig="FIRST_SHIFT = %s" % consts["FIRST_SHIFT"])
    ctx.ob("R1", consts["NEXT_SHIFT"] == STEP, "each level is 8 times coarser (NEXT_SHIFT = 3)", func=f,
           sig="NEXT_SHIFT = %s" % consts["NEXT_SHIFT"])
    ctx.ob("R1", consts["MAX_CHROM_SIZE"] == 2 ** (FINEST + STEP * (LEVELS - 1)), "the coarsest level is one 512 Mb bin (MAX_CHROM_SIZE = 2**29)",
           func=f, sig="MAX_CHROM_SIZE = %s" % consts["MAX_CHROM_SIZE"])
    co = consts["COORD_OFFSETS"]
    ctx.ob("R1", co.get("gff") == 1 and co.get("bed") == 0, "gff coordinates are 1-based, bed 0-based", func=f,
           sig="COORD_OFFSETS = %s" % dict(sorted(co.items())))
    d = f.param_defaults()
    fmt_d = d.get(f.params[2]) if len(f.params) > 2 else None
    one_d = d.get(f.params[3]) if len(f.params) > 3 else None
    ctx.ob("R1", isinstance(fmt_d, ast.Constant) and fmt_d.value == "gff" and isinstance(one_d, ast.Constant) and one_d.value is True,
           "defaults are the gff convention and single-bin mode", func=f,
           sig="defaults fmt=%s one=%s" % (getattr(fmt_d, "value", None), getattr(one_d, "value", None)))
    mx = 2 ** (FINEST + STEP * (LEVELS - 1))
    # ------------------------------------------------ R2 / R3 / R4 decided on the threshold grid
    grid_decision(ctx, f)
    # ------------------------------------------------ ... and for every integer pair, when the code is in the subset of
    # the shift-form interpretation (intervals + ((param - a) >> b) + c): same obligations, "for all" strength
    n0 = len(ctx.obs)
    from .. import AnalysisError
    from ..binsai import Unsup
    try:
        _forall(ctx, f, consts, mx)
        ctx.extra["for_all_integer_pairs"] = True
    except (Unsup, AnalysisError) as e:
        del ctx.obs[n0:]
        ctx.extra["for_all_integer_pairs"] = False
        ctx.note("the shift-form interpretation does not cover this formulation of bins.bins (%s): decided on the threshold grid only" % e)
    ctx.exhaustive = bool(ctx.extra.get("for_all_integer_pairs"))
    # ------------------------------------------------------------------ R5: a Feature's stored bin is bins(start, end)
    from .c06 import _r3_bin_provenance
    n0 = len(ctx.obs)
    _r3_bin_provenance(ctx)
    for o in ctx.obs[n0:]:
        o.rule = "C12.R5"


def grid_decision(ctx, f):
    """bins.bins evaluated on every pair of the threshold grid (all places where some level's bin changes, both start
    conventions, the range limits) and compared with the scheme of the statement."""
    from ..binsmodel import bins_on_grid, spec_bins, grid_pairs
    cache = ctx.__dict__.setdefault("_cache", {})          # not evidence: the raw grid is megabytes
    if "bins_grid" not in cache:
        cache["bins_grid"] = bins_on_grid(ctx, ctx.tier)
    grid = cache["bins_grid"]
    ctx.floor("R4", len(grid), 4000, "grid evaluations of bins.bins")
    for fmt in ("gff", "bed"):
        coord = {"gff": 1, "bed": 0}[fmt]
        for one in (True, False):
            rows = [g for g in grid if g[0] == fmt and g[1] == one]
            wrong_type = [g for g in rows if (one and not isinstance(g[4], int)) or (not one and not isinstance(g[4], frozenset))]
            ctx.ob("R2", not wrong_type, "with one=%s every coordinate pair of the grid yields %s (fmt=%s)" % (one, "one integer" if one else "a set of integers", fmt), func=f,
                   sig="one=%s fmt=%s: %s" % (one, fmt, "always %s" % ("an int" if one else "a set") if not wrong_type else "bins(%d, %d) is %r" % (wrong_type[0][2], wrong_type[0][3], wrong_type[0][4])))
            outside = lambda g: g[2] < coord or g[3] < 0 or g[2] >= 2 ** 29 or g[3] >= 2 ** 29
            fb = [g for g in rows if outside(g) and g[4] != (1 if one else frozenset({1}))]
            ctx.ob("R3", not fb, "out-of-range coordinates (start < %d, stop < 0, either >= 2**29) return the whole-chromosome bin (fmt=%s, one=%s)" % (coord, fmt, one), func=f,
                   sig="fallback fmt=%s one=%s: %s" % (fmt, one, "bin 1" if not fb else "bins(%d, %d) = %s" % (fb[0][2], fb[0][3], _short(fb[0][4]))))
            bad = [g for g in rows if not outside(g) and (set(g[4]) if isinstance(g[4], frozenset) else g[4]) != spec_bins(g[2], g[3], fmt, one)]
            what = "the finest level on which start and stop share a bin: offset_k + ((start - %d) >> (17 + 3k))" % coord if one else \
                "bin 1 and, per level, range(offset_k + ((start - %d) >> s_k), offset_k + (stop >> s_k) + 1)" % coord
            ctx.ob("R4", not bad, "in range, bins(start, stop, fmt=%s, one=%s) is %s, on all %d grid pairs" % (fmt, one, what, len(rows)), func=f,
                   sig="fmt=%s one=%s: scheme values on the grid" % (fmt, one) if not bad else
                   "fmt=%s one=%s: bins(%d, %d) = %s, the scheme gives %s" % (fmt, one, bad[0][2], bad[0][3], _short(bad[0][4]), _short(spec_bins(bad[0][2], bad[0][3], fmt, one))))
    ctx.extra["grid_pairs"] = len(grid)


def _short(v):
    if isinstance(v, (set, frozenset)):
        xs = sorted(v)
        return "{%s%s}" % (", ".join(map(str, xs[:8])), ", ... %d more" % (len(xs) - 8) if len(xs) > 8 else "")
    return repr(v)


def _forall(ctx, f, consts, mx):
    # ----------------------------------------------------------- R2 / R4
    bi = BinsInterp(ctx, f, consts)
    n_ret = 0
    for fmt in ("gff", "bed"):
        coord = {"gff": 1, "bed": 0}[fmt]
        for one in (True, False):
            rets = bi.run(fmt, one)
            n_ret += len(rets)
            ctx.require(rets, "bins.bins has no reachable return for fmt=%s one=%s" % (fmt, one))
            ints = [r for r in rets if isinstance(r.value, AInt)]
            sets = [r for r in rets if isinstance(r.value, ASet)]
            other = [r for r in rets if not isinstance(r.value, (AInt, ASet))]
            if one:
                bad = sets + other
                ctx.ob("R2", not bad,
                       "with one=True every reachable return yields one integer, for every (start, stop) (fmt=%s)" % fmt,
                       node=(bad[0].node if bad else f.node), func=f,
                       sig="one=True fmt=%s: %s" % (fmt, "always an int" if not bad else "a path returns a %s" % (
                           "set" if sets else type(other[0].value).__name__)),
                       detail=None if not bad else "reachable with " + _witness(bad[0]))
            else:
                bad = ints + other
                ctx.ob("R2", not bad, "with one=False every reachable return yields a set (fmt=%s)" % fmt,
                       node=(bad[0].node if bad else f.node), func=f,
                       sig="one=False fmt=%s: %s" % (fmt, "always a set" if not bad else "a path returns a non-set"),
                       detail=None if not bad else "reachable with " + _witness(bad[0]))
            # ---------------------------------------------------------- R4
            if one:
                levels = {}
                for r in ints:
                    if r.value.is_const() and r.value.lo == 1 and not any(p[0].startswith("level") for p in r.path):
                        continue  # fallback returns
                    lv = max([int(p[0].split()[1]) for p in r.path if p[0].startswith("level")], default=None)
                    if lv is None:
                        continue
                    levels.setdefault(lv, []).append(r)
                for k in range(LEVELS):
                    exp = Form("start", coord, FINEST + STEP * k, spec_offset(k))
                    rs = levels.get(k, [])
                    ok = bool(rs) and all(r.value.form == exp for r in rs)
                    ctx.ob("R4", ok, "level %d single-bin result is offset_k + ((start - %d) >> %d) (fmt=%s)" % (k, coord, FINEST + STEP * k, fmt),
                           node=(rs[0].node if rs else f.node), func=f,
                           sig="fmt=%s level %d one-result: %s" % (fmt, k, "scheme formula" if ok else
                                                                   (repr(rs[0].value.form) if rs else "no return at this level")))
                    # the test that selects this level compares the two shifted coordinates
                ctx.ob("R4", set(levels) <= set(range(LEVELS)), "single-bin results come from the 5 levels only", func=f,
                       sig="fmt=%s one-result levels %s" % (fmt, sorted(levels)), nontrivial=False)
            else:
                full = [r for r in sets if r.value.ranges]
                ctx.ob("R4", len(full) == 1, "in set mode there is exactly one in-range exit, after all levels (no early exit)",
                       node=(full[1].node if len(full) > 1 else f.node), func=f,
                       sig="fmt=%s set mode: %d in-range exits" % (fmt, len(full)))
                for r in full[:1]:
                    got = [(a.form, b.form) for a, b in r.value.ranges]
                    exp = [(Form("start", coord, FINEST + STEP * k, spec_offset(k)), Form("stop", 0, FINEST + STEP * k, spec_offset(k) + 1))
                           for k in range(LEVELS)]
                    for k in range(LEVELS):
                        ok = exp[k] in got
                        ctx.ob("R4", ok, "level %d adds range(offset_k + ((start-%d)>>%d), offset_k + (stop>>%d) + 1) to the set (fmt=%s)" % (
                            k, coord, FINEST + STEP * k, FINEST + STEP * k, fmt), node=r.node, func=f,
                            sig="fmt=%s level %d range: %s" % (fmt, k, "scheme formula" if ok else "missing; ranges are %s" % (
                                ["range(%r, %r)" % g for g in got],)))
                    extra = [g for g in got if g not in exp]
                    ctx.ob("R4", not extra and r.value.consts <= {1}, "the set holds nothing but bin 1 and the five level ranges", node=r.node, func=f,
                           sig="fmt=%s set extras: %s" % (fmt, (["range(%r, %r)" % g for g in extra], sorted(r.value.consts - {1})) if extra or r.value.consts - {1} else "none"),
                           nontrivial=False)
            # fallback returns: constant 1 / {1}
            for r in rets:
                in_loop = any(p[0].startswith("level") for p in r.path)
                if in_loop:
                    continue
                v = r.value
                if isinstance(v, ASet) and not v.ranges and one is False:
                    ok = v.consts == {1}
                elif isinstance(v, AInt) and one is True:
                    ok = v.is_const() and v.lo == 1
                elif isinstance(v, ASet) and v.ranges:
                    continue
                else:
                    ok = False
                ctx.ob("R3", ok, "out-of-range coordinates return the whole-chromosome bin (1, or {1} in set mode)", node=r.node, func=f,
                       sig="fallback return fmt=%s one=%s: %s" % (fmt, one, "bin 1" if ok else repr(v)), nontrivial=False)
    ctx.extra["returns_analysed"] = n_ret
    # ------------------------------------------------------------------ R3
    for fmt in ("gff", "bed"):
        coord = {"gff": 1, "bed": 0}[fmt]
        pred, guards, _names = fallback_predicate(ctx, fmt)
        spec = lambda e: e["start"] < coord or e["stop"] < 0 or e["start"] >= mx or e["stop"] >= mx
        pts = sorted({-2, -1, 0, 1, 2, mx - 2, mx - 1, mx, mx + 1, 5000})
        cex = None
        for s in pts:
            for t in pts:
                env = {"start": s, "stop": t}
                if s > t and not spec(env):
                    continue     # an inverted in-range pair overlaps no bin but bin 1: the constant answer there is not the fallback
                if bool(pred(env)) != bool(spec(env)):
                    cex = env
                    break
            if cex:
                break
        ctx.ob("R3", cex is None,
               "the guards send exactly start < %d ∨ stop < 0 ∨ start ≥ 2**29 ∨ stop ≥ 2**29 to the whole-chromosome bin (fmt=%s)" % (coord, fmt),
               func=f, sig="fallback domain fmt=%s: %s" % (fmt, "as specified" if cex is None else
                                                          "differs from the out-of-range domain"),
               detail=None if cex is None else "at start=%(start)d stop=%(stop)d the guards say %%s, the statement says %%s" % cex % (
                   "fallback" if pred(cex) else "in range", "out of range" if spec(cex) else "in range"))


def _witness(r):
    conds = [("%s" if o else "not (%s)") % c for c, o in r.path if not c.startswith("level")]
    return " ∧ ".join(conds[-6:]) or "no condition"
