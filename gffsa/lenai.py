"""Sequence-length abstract interpretation (forward dataflow on the statement
CFG, no execution): every local holds TOP, a sequence Seq(lo, exact, elem)
(`len >= lo`, or `len == lo` when exact; elem abstracts every element) or a
positional tuple Tup([v0, v1, ...]).  Branch edges refine the state through
truthiness and `len(x) <op> n` tests; short-circuit operators, conditional
expressions and comprehension filters refine inside expressions.  Calls to
package functions are summarised by analysing the callee with the abstract
arguments (inlining bound 3).

The analysis decides, for each constant-index subscript `b[i]` and each
fixed-arity unpack, whether the operation can raise IndexError / ValueError:
it cannot when the abstract length of the base covers the index.
"""
import ast

from .cfg import cfg_of
from .model import norm, walk_own


class _Top:
    def __repr__(self):
        return "T"


TOP = _Top()


class _Bot:
    def __repr__(self):
        return "_"


BOT = _Bot()   # element of an empty display


class Seq:
    __slots__ = ("lo", "exact", "elem", "kind")

    def __init__(self, lo, exact=False, elem=TOP, kind=None):
        self.lo, self.exact, self.elem, self.kind = lo, exact, elem, kind

    def __repr__(self):
        return "Seq(%s%d,%r%s)" % ("=" if self.exact else ">=", self.lo, self.elem, "," + self.kind if self.kind else "")

    def __eq__(self, o):
        return isinstance(o, Seq) and (self.lo, self.exact, self.kind) == (o.lo, o.exact, o.kind) and _eq(self.elem, o.elem)

    def __hash__(self):
        return hash((self.lo, self.exact, self.kind))


class Tup:
    __slots__ = ("items", "kind")

    def __init__(self, items, kind="tuple"):
        self.items, self.kind = list(items), kind

    def __repr__(self):
        return "Tup(%s)" % ",".join(map(repr, self.items))

    def __eq__(self, o):
        return isinstance(o, Tup) and self.kind == o.kind and len(self.items) == len(o.items) and all(_eq(a, b) for a, b in zip(self.items, o.items))

    def __hash__(self):
        return hash((len(self.items), self.kind))


def _eq(a, b):
    if a is b:
        return True
    if isinstance(a, (Seq, Tup)) and isinstance(b, (Seq, Tup)):
        return a == b
    return False


def STR(lo=0, exact=False):
    return Seq(lo, exact, TOP, "str")


def as_seq(v):
    if isinstance(v, Tup):
        e = BOT
        for i in v.items:
            e = join(e, i)
        return Seq(len(v.items), True, e, v.kind)
    return v


def join(a, b):
    if a is BOT:
        return b
    if b is BOT:
        return a
    if a is TOP or b is TOP:
        return TOP
    if isinstance(a, Tup) and isinstance(b, Tup) and len(a.items) == len(b.items):
        return Tup([join(x, y) for x, y in zip(a.items, b.items)], a.kind if a.kind == b.kind else None)
    a, b = as_seq(a), as_seq(b)
    if not isinstance(a, Seq) or not isinstance(b, Seq):
        return TOP
    lo = min(a.lo, b.lo)
    return Seq(lo, a.exact and b.exact and a.lo == b.lo, join(a.elem, b.elem), a.kind if a.kind == b.kind else None)


def elem_of(v):
    if isinstance(v, Tup):
        return as_seq(v).elem if v.items else BOT
    if isinstance(v, Seq):
        if v.kind == "str":
            return STR(1, True)
        return v.elem
    return TOP


def min_len(v):
    if isinstance(v, Tup):
        return len(v.items)
    if isinstance(v, Seq):
        return v.lo
    return 0


def exact_len(v):
    if isinstance(v, Tup):
        return len(v.items)
    if isinstance(v, Seq) and v.exact:
        return v.lo
    return None


class Contradiction(Exception):
    pass


def with_min(v, n):
    """v refined by `len(v) >= n`."""
    if isinstance(v, Tup):
        if len(v.items) < n:
            raise Contradiction()
        return v
    if isinstance(v, Seq):
        if v.exact:
            if v.lo < n:
                raise Contradiction()
            return v
        return Seq(max(v.lo, n), False, v.elem, v.kind)
    if v is TOP:
        return Seq(n, False, TOP, None) if n > 0 else v
    return v


def with_exact(v, n):
    if isinstance(v, Tup):
        if len(v.items) != n:
            raise Contradiction()
        return v
    if isinstance(v, Seq):
        if v.lo > n or (v.exact and v.lo != n):
            raise Contradiction()
        return Seq(n, True, v.elem, v.kind)
    if v is TOP:
        return Seq(n, True, TOP, None)
    return v


def path_of(e):
    """A stable access path: name, attribute chain, constant subscripts."""
    if isinstance(e, ast.Name):
        return e.id
    if isinstance(e, ast.Attribute):
        p = path_of(e.value)
        return None if p is None else "%s.%s" % (p, e.attr)
    if isinstance(e, ast.Subscript) and isinstance(e.slice, ast.Constant):
        p = path_of(e.value)
        return None if p is None else "%s[%r]" % (p, e.slice.value)
    return None


SHRINKING = {"pop", "remove", "clear", "popitem"}
STR_METHODS = {"strip", "lstrip", "rstrip", "lower", "upper", "replace", "join", "format", "title", "capitalize", "decode", "encode",
               "zfill", "ljust", "rjust", "center", "expandtabs", "swapcase", "casefold", "translate"}


class Analysis:
    def __init__(self, proj, max_depth=3):
        self.proj = proj
        self.max_depth = max_depth
        self.sites = {}       # id(node) -> (node, func, ok, description)
        self.visited_funcs = []
        self._stack = []
        self.truncated = []
        self.unreached = []
        self._explicit_top = None

    # ------------------------------------------------------------ statements
    def analyse(self, func, args=None, record=True, closed=False):
        """Fixpoint over the CFG of func; returns the join of returned values.
        closed: the arguments are those of a call (absent ones take their defaults)."""
        key = func.qual
        if key in self._stack:
            self.truncated.append("recursive call of %s" % key)
            return TOP
        if len(self._stack) >= self.max_depth:
            self.truncated.append("call chain %s -> %s deeper than the inlining bound %d" % (" -> ".join(self._stack), key, self.max_depth))
            return TOP
        self._stack.append(key)
        try:
            return self._analyse(func, args or {}, record, closed)
        finally:
            self._stack.pop()

    def _analyse(self, func, args, record, closed=False):
        cfg = cfg_of(func)
        if record and func not in self.visited_funcs:
            self.visited_funcs.append(func)
        init = {}
        defaults = func.param_defaults()
        a = func.node.args
        for p in func.params:
            if p in args:
                init[p] = args[p]
            elif (a.vararg and p == a.vararg.arg):
                init[p] = Seq(0, False, TOP, "tuple")
            else:
                d = defaults.get(p)
                init[p] = TOP
                if d is not None and closed and p not in (self._explicit_top or ()):
                    init[p] = self.eval(d, {}, func, False)
        init = {k: v for k, v in init.items() if v is not TOP and v is not BOT}
        EDGE = {}          # (src, dst, label) -> env flowing along that edge (absent: not reached yet)
        self._edge_in = EDGE

        def state(nid, which="all"):
            """Join of what currently flows into nid ('back': only along back edges, 'fwd': the others)."""
            if nid == cfg.entry.id:
                return dict(init) if which != "back" else None
            cur = None
            for (a, lab) in cfg.pred[nid]:
                if which == "back" and lab != "back":
                    continue
                if which == "fwd" and lab == "back":
                    continue
                e = EDGE.get((a, nid, lab))
                if e is None:
                    continue
                cur = dict(e) if cur is None else self.join_env(cur, e)
            return cur
        self._state = state
        work = [cfg.entry.id]
        rounds = 0
        while work:
            rounds += 1
            if rounds > 20000:
                raise RuntimeError("length analysis did not converge in %s" % func.qual)
            nid = work.pop(0)
            env = state(nid)
            if env is None:
                continue
            outs = self.transfer(cfg, nid, env, func, state=state)
            for (m, label) in cfg.succ[nid]:
                out = outs[label] if label in outs else outs.get("*")
                key = (nid, m, label)
                old = EDGE.get(key)
                if out is None:
                    if old is not None:
                        del EDGE[key]
                        if m not in work:
                            work.append(m)
                    continue
                if old is None or not self.env_eq(old, out):
                    EDGE[key] = out
                    if m not in work:
                        work.append(m)
        # final pass: record sites and collect returns
        ret = BOT
        IN = {}
        for n in cfg.nodes:
            e = state(n.id)
            if e is not None:
                IN[n.id] = e
        for nid, env in IN.items():
            n = cfg.nodes[nid]
            if n.stmt is None:
                continue
            self.transfer(cfg, nid, env, func, record=record, state=state)
            if isinstance(n.stmt, ast.Return) and n.kind == "stmt":
                v = self.eval(n.stmt.value, dict(env), func, False) if n.stmt.value is not None else TOP
                ret = join(ret, v)
        if any(isinstance(x, (ast.Yield, ast.YieldFrom)) for x in walk_own(func.node)):
            e = BOT
            for nid, env in IN.items():
                st = cfg.nodes[nid].stmt
                if st is None or cfg.nodes[nid].kind != "stmt":
                    continue
                for x in ast.walk(st):
                    if isinstance(x, ast.Yield) and x.value is not None:
                        e = join(e, self.eval(x.value, dict(env), func, False))
            return Seq(0, False, e if e is not BOT else TOP, None)
        self.unreached += [(func, n) for n in cfg.nodes if n.stmt is not None and n.id not in IN]
        return TOP if ret is BOT else ret

    @staticmethod
    def join_env(a, b):
        out = {}
        for k in a:
            if k in b:
                v = join(a[k], b[k])
                if v is not TOP:
                    out[k] = v
        return out

    @staticmethod
    def env_eq(a, b):
        if a.keys() != b.keys():
            return False
        return all(_eq(a[k], b[k]) or (a[k] is TOP and b[k] is TOP) for k in a)

    def transfer(self, cfg, nid, env, func, record=False, state=None):
        """{edge label: env or None (edge not taken)}; '*' is the default for other labels."""
        n = cfg.nodes[nid]
        st = n.stmt
        env0 = env
        env = dict(env)
        if st is None:
            return {"*": env}
        if n.kind == "test":
            self.eval(st.test, env, func, record)
            return {"true": self.refine(st.test, True, dict(env), func), "false": self.refine(st.test, False, dict(env), func), "exc": env0, "*": env}
        if n.kind == "loop":
            if isinstance(st, ast.While):
                self.eval(st.test, env, func, record)
                return {"true": self.refine(st.test, True, dict(env), func), "false": self.refine(st.test, False, dict(env), func), "exc": env0,
                        "*": env}
            fwd = state(nid, "fwd") if state is not None else None
            back = state(nid, "back") if state is not None else None
            # the iterable is evaluated once, on entry
            it = self.eval(st.iter, dict(fwd) if fwd is not None else env, func, record)
            t = dict(env)
            ev = elem_of(it)
            if ev is BOT:
                # iterating an empty display: the body never runs
                return {"true": None, "false": env, "exc": env0, "*": env}
            self.bind(st.target, ev, t)
            exit_env = env
            if min_len(it) >= 1 and state is not None:
                # at least one iteration: the loop is left only after the body ran (break edges are separate)
                exit_env = back
            return {"true": t, "false": exit_env, "exc": env0, "*": env}
        if n.kind == "with":
            for item in st.items:
                self.eval(item.context_expr, env, func, record)
                if item.optional_vars is not None:
                    self.bind(item.optional_vars, TOP, env)
            return {"*": env, "exc": env0}
        if n.kind == "handler":
            if st.name:
                env[st.name] = TOP
            return {"*": env}
        # simple statements
        if isinstance(st, ast.Assign):
            v = self.eval(st.value, env, func, record)
            for t in st.targets:
                if record and isinstance(t, (ast.Tuple, ast.List)) and not any(isinstance(e, ast.Starred) for e in t.elts):
                    self.unpack_site(st, t, v, func)
                self.bind(t, v, env, func, record)
        elif isinstance(st, ast.AnnAssign):
            if st.value is not None:
                self.bind(st.target, self.eval(st.value, env, func, record), env, func, record)
        elif isinstance(st, ast.AugAssign):
            cur = self.eval(st.target, env, func, False) if not isinstance(st.target, ast.Name) else env.get(st.target.id, TOP)
            v = self.eval(st.value, env, func, record)
            if isinstance(st.op, ast.Add) and isinstance(as_seq(cur), Seq) and isinstance(as_seq(v), Seq):
                c, w = as_seq(cur), as_seq(v)
                res = Seq(c.lo + w.lo, False, join(c.elem, w.elem), c.kind)
            else:
                res = TOP
            self.bind(st.target, res, env, func, False)
        elif isinstance(st, ast.Expr):
            self.eval(st.value, env, func, record)
            self.effects(st.value, env, func)
        elif isinstance(st, (ast.Return, ast.Raise, ast.Assert, ast.Delete)):
            for ch in ast.iter_child_nodes(st):
                if isinstance(ch, ast.expr):
                    if isinstance(st, ast.Delete):
                        p = path_of(ch.value) if isinstance(ch, ast.Subscript) else path_of(ch)
                        if p is not None:
                            self.kill(p, env)
                            if isinstance(ch, ast.Subscript):
                                self.shrink_all(env)
                    else:
                        self.eval(ch, env, func, record)
            if isinstance(st, ast.Assert):
                env = self.refine(st.test, True, env, func)
                if env is None:
                    return {"*": None, "exc": env0}
        elif isinstance(st, (ast.FunctionDef, ast.ClassDef)):
            env[st.name] = TOP
        elif isinstance(st, (ast.Import, ast.ImportFrom, ast.Pass, ast.Break, ast.Continue, ast.Global, ast.Nonlocal)):
            pass
        else:
            for ch in ast.iter_child_nodes(st):
                if isinstance(ch, ast.expr):
                    self.eval(ch, env, func, record)
        return {"*": env, "exc": env0}

    def kill(self, path, env):
        for k in list(env):
            if k == path or k.startswith(path + ".") or k.startswith(path + "["):
                del env[k]

    def shrink_all(self, env):
        for k, v in list(env.items()):
            if isinstance(v, Seq) and v.kind not in ("str", "tuple"):
                env[k] = Seq(0, False, v.elem, v.kind)
            elif isinstance(v, Tup) and v.kind != "tuple":
                env[k] = Seq(0, False, as_seq(v).elem, v.kind)

    def bind(self, target, v, env, func=None, record=False):
        if isinstance(target, ast.Name):
            self.kill(target.id, env)
            if v is not TOP and v is not BOT:
                env[target.id] = v
            return
        if isinstance(target, (ast.Tuple, ast.List)):
            n = len(target.elts)
            star = [i for i, e in enumerate(target.elts) if isinstance(e, ast.Starred)]
            for i, e in enumerate(target.elts):
                if isinstance(e, ast.Starred):
                    self.bind(e.value, Seq(0, False, elem_of(v), "list"), env, func, record)
                elif isinstance(v, Tup) and len(v.items) == n and not star:
                    self.bind(e, v.items[i], env, func, record)
                else:
                    ev = elem_of(v)
                    self.bind(e, TOP if ev is BOT else ev, env, func, record)
            return
        if isinstance(target, ast.Subscript):
            if func is not None:
                self.eval(target.value, env, func, record)
                if not isinstance(target.slice, ast.Slice):
                    self.eval(target.slice, env, func, record)
            p = path_of(target.value)
            if p is not None and not isinstance(target.slice, ast.Slice):
                base = env.get(p)
                k = target.slice
                if isinstance(base, Tup) and isinstance(k, ast.Constant) and isinstance(k.value, int) and -len(base.items) <= k.value < len(base.items):
                    items = list(base.items)
                    items[k.value] = v
                    env[p] = Tup(items, base.kind)
                elif isinstance(as_seq(base), Seq):
                    b = as_seq(base)
                    env[p] = Seq(b.lo, b.exact, join(b.elem, v), b.kind)
                self.kill(p + "[", env) if False else None
                for key in list(env):
                    if key.startswith(p + "["):
                        del env[key]
            elif p is not None:
                self.kill(p, env)
            return
        if isinstance(target, ast.Attribute):
            p = path_of(target)
            if p is not None:
                self.kill(p, env)
                if v is not TOP and v is not BOT:
                    env[p] = v
            return
        if isinstance(target, ast.Starred):
            self.bind(target.value, TOP, env, func, record)

    def effects(self, e, env, func):
        """In-place list mutation through a method call statement."""
        if not (isinstance(e, ast.Call) and isinstance(e.func, ast.Attribute)):
            return
        p = path_of(e.func.value)
        m = e.func.attr
        if m in SHRINKING or m == "__delitem__":
            self.shrink_all(env)
            return
        if p is None:
            return
        cur = env.get(p)
        if cur is None:
            return
        c = as_seq(cur)
        if not isinstance(c, Seq) or c.kind in ("str", "tuple"):
            return
        if m == "append" and e.args:
            v = self.eval(e.args[0], env, func, False)
            env[p] = Seq(c.lo + 1, False, join(c.elem, v), c.kind)
        elif m == "insert" and len(e.args) == 2:
            v = self.eval(e.args[1], env, func, False)
            env[p] = Seq(c.lo + 1, False, join(c.elem, v), c.kind)
        elif m == "extend" and e.args:
            v = as_seq(self.eval(e.args[0], env, func, False))
            if isinstance(v, Seq):
                env[p] = Seq(c.lo + v.lo, False, join(c.elem, elem_of(v)), c.kind)
            else:
                env[p] = Seq(c.lo, False, TOP, c.kind)
        elif m in ("sort", "reverse"):
            if isinstance(cur, Tup):
                env[p] = c

    # ----------------------------------------------------------- expressions
    def site(self, node, func, ok, what, record):
        if record:
            prev = self.sites.get(id(node))
            # a site visited under several contexts must be safe in all of them
            if prev is None or (prev[2] and not ok):
                self.sites[id(node)] = (node, func, ok, what)

    def unpack_site(self, st, target, v, func):
        n = len(target.elts)
        ln = exact_len(v)
        if isinstance(st.value, (ast.Tuple, ast.List)):
            return
        if v is TOP and isinstance(st.value, ast.Call):
            return  # arity of an unsummarised call result: outside this analysis (assumption)
        self.site(st, func, ln == n, "unpacking %s (abstract value %r) into %d names" % (norm(st.value), v, n), True)

    def eval(self, e, env, func, record):
        if e is None:
            return TOP
        m = getattr(self, "e_" + e.__class__.__name__, None)
        if m is not None:
            return m(e, env, func, record)
        for ch in ast.iter_child_nodes(e):
            if isinstance(ch, ast.expr):
                self.eval(ch, env, func, record)
        return TOP

    def e_Constant(self, e, env, func, record):
        if isinstance(e.value, (str, bytes)):
            return Seq(len(e.value), True, TOP, "str")
        return TOP

    def e_JoinedStr(self, e, env, func, record):
        for v in e.values:
            if isinstance(v, ast.FormattedValue):
                self.eval(v.value, env, func, record)
        return STR(sum(len(v.value) for v in e.values if isinstance(v, ast.Constant)))

    def e_Name(self, e, env, func, record):
        return env.get(e.id, TOP)

    def e_Attribute(self, e, env, func, record):
        self.eval(e.value, env, func, record)
        p = path_of(e)
        if p is not None and p in env:
            return env[p]
        return TOP

    def _display(self, e, env, func, record, kind):
        items = []
        star = False
        for x in e.elts:
            if isinstance(x, ast.Starred):
                star = True
                self.eval(x.value, env, func, record)
            else:
                items.append(self.eval(x, env, func, record))
        if star:
            el = BOT
            for i in items:
                el = join(el, i)
            return Seq(len(items), False, TOP, kind)
        return Tup(items, kind)

    def e_Tuple(self, e, env, func, record):
        return self._display(e, env, func, record, "tuple")

    def e_List(self, e, env, func, record):
        return self._display(e, env, func, record, "list")

    def e_Set(self, e, env, func, record):
        for x in e.elts:
            self.eval(x, env, func, record)
        return TOP

    def e_Dict(self, e, env, func, record):
        for x in list(e.keys) + list(e.values):
            if x is not None:
                self.eval(x, env, func, record)
        return TOP

    def _comp(self, e, elt, env, func, record):
        env = dict(env)
        for g in e.generators:
            it = self.eval(g.iter, env, func, record)
            ev = elem_of(it)
            self.bind(g.target, TOP if ev is BOT else ev, env)
            for c in g.ifs:
                self.eval(c, env, func, record)
                env = self.refine(c, True, env, func)
                if env is None:
                    return [BOT for _x in elt]
        return [self.eval(x, env, func, record) for x in elt]

    def e_ListComp(self, e, env, func, record):
        (v,) = self._comp(e, [e.elt], env, func, record)
        return Seq(0, False, v, "list")

    def e_GeneratorExp(self, e, env, func, record):
        (v,) = self._comp(e, [e.elt], env, func, record)
        return Seq(0, False, v, None)

    def e_SetComp(self, e, env, func, record):
        self._comp(e, [e.elt], env, func, record)
        return TOP

    def e_DictComp(self, e, env, func, record):
        self._comp(e, [e.key, e.value], env, func, record)
        return TOP

    def e_Lambda(self, e, env, func, record):
        inner = dict(env)
        for a in e.args.args:
            inner.pop(a.arg, None)
        self.eval(e.body, inner, func, record)
        return TOP

    def e_IfExp(self, e, env, func, record):
        self.eval(e.test, env, func, record)
        et, ef = self.refine(e.test, True, dict(env), func), self.refine(e.test, False, dict(env), func)
        a = self.eval(e.body, et, func, record) if et is not None else BOT
        b = self.eval(e.orelse, ef, func, record) if ef is not None else BOT
        v = join(a, b)
        return TOP if v is BOT else v

    def e_BoolOp(self, e, env, func, record):
        cur = dict(env)
        vals = []
        is_and = isinstance(e.op, ast.And)
        for i, v in enumerate(e.values):
            val = self.eval(v, cur, func, record)
            if i < len(e.values) - 1:
                # value is the result only when it stops the evaluation
                stopped = self._refine_value(val, not is_and)
                vals.append(stopped)
                cur = self.refine(v, is_and, cur, func)
                if cur is None:
                    break
            else:
                vals.append(val)
        out = BOT
        for v in vals:
            out = join(out, v)
        return TOP if out is BOT else out

    @staticmethod
    def _refine_value(v, truthy):
        if truthy:
            return with_min(v, 1) if isinstance(v, (Seq, Tup)) else v
        return v

    def e_UnaryOp(self, e, env, func, record):
        self.eval(e.operand, env, func, record)
        return TOP

    def e_Compare(self, e, env, func, record):
        self.eval(e.left, env, func, record)
        for c in e.comparators:
            self.eval(c, env, func, record)
        return TOP

    def e_BinOp(self, e, env, func, record):
        l = self.eval(e.left, env, func, record)
        r = self.eval(e.right, env, func, record)
        ls, rs = as_seq(l), as_seq(r)
        if isinstance(e.op, ast.Add) and isinstance(ls, Seq) and isinstance(rs, Seq):
            if isinstance(l, Tup) and isinstance(r, Tup):
                return Tup(l.items + r.items, l.kind)
            return Seq(ls.lo + rs.lo, ls.exact and rs.exact, join(ls.elem, rs.elem), ls.kind)
        if isinstance(e.op, ast.Mod) and isinstance(ls, Seq) and ls.kind == "str":
            return STR(0)
        if isinstance(e.op, ast.Mult):
            s = ls if isinstance(ls, Seq) else rs if isinstance(rs, Seq) else None
            if s is not None:
                return Seq(0, False, s.elem, s.kind)
        return TOP

    def e_Starred(self, e, env, func, record):
        self.eval(e.value, env, func, record)
        return TOP

    def e_Subscript(self, e, env, func, record):
        base = self.eval(e.value, env, func, record)
        k = e.slice
        if isinstance(k, ast.Slice):
            for x in (k.lower, k.upper, k.step):
                if x is not None:
                    self.eval(x, env, func, record)
            b = as_seq(base)
            if not isinstance(b, Seq):
                return TOP
            lo = 0
            if k.upper is None and k.step is None:
                if k.lower is None:
                    lo = b.lo
                elif isinstance(k.lower, ast.Constant) and isinstance(k.lower.value, int) and k.lower.value >= 0:
                    lo = max(0, b.lo - k.lower.value)
                    if b.exact:
                        return Seq(lo, True, b.elem, b.kind)
            elif k.lower is None and k.step is None and isinstance(k.upper, ast.Constant) and isinstance(k.upper.value, int):
                u = k.upper.value
                lo = min(b.lo, u) if u >= 0 else max(0, b.lo + u)
            return Seq(lo, False, b.elem, b.kind)
        idx = None
        if isinstance(k, ast.Constant) and isinstance(k.value, int) and not isinstance(k.value, bool):
            idx = k.value
        elif isinstance(k, ast.UnaryOp) and isinstance(k.op, ast.USub) and isinstance(k.operand, ast.Constant) and isinstance(k.operand.value, int):
            idx = -k.operand.value
        if idx is None:
            self.eval(k, env, func, record)
            p = path_of(e)
            if p is not None and p in env:
                return env[p]
            ev = elem_of(base)
            return TOP if ev is BOT or not isinstance(as_seq(base), Seq) else ev
        if isinstance(e.ctx, ast.Load):
            need = idx + 1 if idx >= 0 else -idx
            have = min_len(base)
            self.site(e, func, have >= need, "index %d of %s needs len >= %d, abstract value %r" % (idx, norm(e.value), need, base), record)
        p = path_of(e)
        if p is not None and p in env:
            return env[p]
        if isinstance(base, Tup) and -len(base.items) <= idx < len(base.items):
            return base.items[idx]
        ev = elem_of(base)
        return TOP if ev is BOT else ev

    def e_Call(self, e, env, func, record):
        f = e.func
        args = [self.eval(a.value if isinstance(a, ast.Starred) else a, env, func, record) for a in e.args]
        kws = {k.arg: self.eval(k.value, env, func, record) for k in e.keywords}
        if isinstance(f, ast.Attribute):
            recv = self.eval(f.value, env, func, record)
            m = f.attr
            if m in ("split", "rsplit"):
                a0 = e.args[0] if e.args else next((k.value for k in e.keywords if k.arg == "sep"), None)
                if a0 is None or (isinstance(a0, ast.Constant) and a0.value is None):
                    return Seq(0, False, STR(1), "list")
                return Seq(1, False, STR(0), "list")
            if m == "splitlines":
                return Seq(0, False, STR(0), "list")
            if m in ("partition", "rpartition"):
                return Tup([STR(0), STR(0), STR(0)])
            if m in STR_METHODS:
                return STR(0)
            if m == "items":
                return Seq(0, False, Tup([TOP, TOP]), None)
            if m == "copy":
                return recv
            if m == "groups":
                return TOP
            if m in ("findall",):
                return Seq(0, False, TOP, "list")
            if m in SHRINKING:
                self.shrink_all(env)
        if isinstance(f, ast.Name) and f.id not in env:
            n = f.id
            a0 = args[0] if args else TOP
            s0 = as_seq(a0)
            if n in ("list", "tuple", "sorted", "reversed") and args:
                if isinstance(a0, Tup) and n in ("list", "tuple"):
                    return Tup(a0.items, n)
                if isinstance(s0, Seq):
                    return Seq(s0.lo, s0.exact, elem_of(s0), "list" if n != "tuple" else "tuple")
                return Seq(0, False, TOP, "list" if n != "tuple" else "tuple")
            if n in ("list", "tuple") and not args:
                return Tup([], n)
            if n == "enumerate" and args:
                ev = elem_of(a0)
                lo = s0.lo if isinstance(s0, Seq) else 0
                return Seq(lo, isinstance(s0, Seq) and s0.exact, Tup([TOP, TOP if ev is BOT else ev]), None)
            if n == "zip":
                ss = [as_seq(a) for a in args]
                lo = min([s.lo for s in ss if isinstance(s, Seq)] or [0]) if all(isinstance(s, Seq) for s in ss) else 0
                return Seq(lo, False, Tup([TOP if elem_of(a) is BOT else elem_of(a) for a in args]), None)
            if n in ("str", "repr", "chr"):
                return STR(0)
            if n in ("len", "int", "float", "bool", "isinstance", "print", "max", "min", "sum", "any", "all", "dict", "set", "range", "id", "type", "iter", "next", "map", "filter"):
                return TOP
        # package functions: analyse the callee with the abstract arguments
        funcs, d_ = self.proj.resolve_call(e, func) if func is not None else ([], None)
        results = []
        for g in funcs:       # several candidates (a local bound to one of several functions): each analysed, results joined
            params = [p for p in g.params]
            is_ctor = d_ in self.proj.classes
            if g.cls is not None and params and params[0] in ("self", "cls") and (isinstance(f, ast.Attribute) or is_ctor):
                params = params[1:]
            bound = {}
            explicit_top = set()
            if not any(isinstance(a, ast.Starred) for a in e.args) and not any(k.arg is None for k in e.keywords):
                for p, a in zip(params, args):
                    bound[p] = a
                for k, v in kws.items():
                    bound[k] = v
                explicit_top = {k for k, v in bound.items() if v is TOP}
                closed = True
            else:
                closed = False
            saved = self._explicit_top
            self._explicit_top = explicit_top
            try:
                # the callee's own partial operations are recorded under this calling context
                res = self.analyse(g, bound, record=record, closed=closed)
            finally:
                self._explicit_top = saved
            if any((isinstance(x, ast.Call) and isinstance(x.func, ast.Attribute) and x.func.attr in SHRINKING) or isinstance(x, ast.Delete)
                   for x in ast.walk(g.node)):
                self.shrink_all(env)
            results.append(TOP if is_ctor else res)
        if results:
            out = results[0]
            for r_ in results[1:]:
                out = join(out, r_)
            return out
        return TOP

    # ------------------------------------------------------------ refinement
    def refine(self, test, pol, env, func):
        """env refined by `test` evaluating to `pol`; None when that outcome is impossible."""
        if env is None:
            return None
        try:
            return self._refine(test, pol, env, func)
        except Contradiction:
            return None

    def _refine(self, test, pol, env, func):
        if isinstance(test, ast.UnaryOp) and isinstance(test.op, ast.Not):
            return self._refine(test.operand, not pol, env, func)
        if isinstance(test, ast.BoolOp):
            conj = isinstance(test.op, ast.And)
            if conj == pol:
                for v in test.values:
                    env = self._refine(v, pol, env, func)
            return env
        p = path_of(test)
        if p is not None:
            cur = env.get(p, TOP)
            if pol:
                env[p] = with_min(cur, 1)
            elif isinstance(as_seq(cur), Seq):
                env[p] = with_exact(cur, 0)
            return env
        if isinstance(test, ast.Compare) and len(test.ops) == 1:
            l, op, r = test.left, test.ops[0], test.comparators[0]
            # len(x) <op> n   /   n <op> len(x)
            flip = {ast.Lt: ast.Gt, ast.Gt: ast.Lt, ast.LtE: ast.GtE, ast.GtE: ast.LtE, ast.Eq: ast.Eq, ast.NotEq: ast.NotEq}
            if self._is_len(r) and self._int(l, env, func) is not None and type(op) in flip:
                l, r, op = r, l, flip[type(op)]()
            if self._is_len(l) and self._int(r, env, func) is not None:
                n = self._int(r, env, func)
                p = path_of(l.args[0])
                if p is None:
                    return env
                cur = env.get(p, TOP)
                kind = type(op)
                if not pol:
                    kind = {ast.Eq: ast.NotEq, ast.NotEq: ast.Eq, ast.Lt: ast.GtE, ast.GtE: ast.Lt, ast.Gt: ast.LtE, ast.LtE: ast.Gt}.get(kind)
                if kind is ast.Eq:
                    env[p] = with_exact(cur, n)
                elif kind is ast.GtE:
                    env[p] = with_min(cur, n)
                elif kind is ast.Gt:
                    env[p] = with_min(cur, n + 1)
                elif kind is ast.NotEq and n == 0:
                    env[p] = with_min(cur, 1)
                elif kind in (ast.Lt, ast.LtE):
                    bound = n - 1 if kind is ast.Lt else n
                    if bound <= 0 and isinstance(as_seq(cur), Seq):
                        env[p] = with_exact(cur, 0)
                return env
            # x == "" / x != "" / x == [] ...
            for a, b in ((l, r), (r, l)):
                pa = path_of(a)
                if pa is not None and isinstance(op, (ast.Eq, ast.NotEq)):
                    empty = (isinstance(b, ast.Constant) and b.value in ("", b"")) or (isinstance(b, (ast.List, ast.Tuple)) and not b.elts)
                    if empty:
                        is_empty = isinstance(op, ast.Eq) == pol
                        cur = env.get(pa, TOP)
                        if is_empty:
                            env[pa] = with_exact(cur if cur is not TOP else Seq(0, False, TOP, None), 0)
                        elif isinstance(as_seq(cur), Seq):
                            env[pa] = with_min(cur, 1)
                        return env
                    if isinstance(b, ast.Constant) and isinstance(b.value, str) and b.value and isinstance(op, ast.Eq) and pol:
                        env[pa] = Seq(len(b.value), True, TOP, "str")
                        return env
        return env

    @staticmethod
    def _is_len(e):
        return isinstance(e, ast.Call) and isinstance(e.func, ast.Name) and e.func.id == "len" and len(e.args) == 1

    def _int(self, e, env, func):
        if isinstance(e, ast.Constant) and isinstance(e.value, int) and not isinstance(e.value, bool):
            return e.value
        if isinstance(e, ast.UnaryOp) and isinstance(e.op, ast.USub) and isinstance(e.operand, ast.Constant) and isinstance(e.operand.value, int):
            return -e.operand.value
        return None
