"""E10/E12 -- obligations, findings registry, evidence and replay files."""
import hashlib
import json
import os
import time

from . import AnalysisError
from .fold import Folder
from .model import Project, norm

VERIF = os.path.dirname(os.path.dirname(os.path.abspath(__file__)))


class Obligation:
    __slots__ = ("rule", "ok", "desc", "where", "func", "sig", "detail", "nontrivial")

    def __init__(self, rule, ok, desc, where, func, sig, detail, nontrivial):
        self.rule, self.ok, self.desc = rule, ok, desc
        self.where, self.func, self.sig = where, func, sig
        self.detail, self.nontrivial = detail, nontrivial

    def key(self):
        return (self.rule, self.func or "", self.sig)

    def as_dict(self):
        return {
            "rule": self.rule, "ok": self.ok, "obligation": self.desc,
            "where": self.where, "function": self.func, "signature": self.sig,
            "detail": self.detail,
        }


class Ctx:
    """Per-check context handed to a property module."""

    def __init__(self, pid, tier="quick", root="/repo", seed=0, proj=None):
        self.t0 = time.time()
        self.pid = pid
        self.tier = tier
        self.root = root
        self.seed = seed
        self.proj = proj or Project(root)
        self.folder = Folder(self.proj)
        self.obs = []
        self.notes = []
        self.assumptions = []
        self.explanation = ""
        self.extra = {}
        self.functions_analysed = set()
        self.exhaustive = None

    # ------------------------------------------------------------- record
    def touch(self, func):
        if func is not None:
            self.functions_analysed.add(func.qual if hasattr(func, "qual") else str(func))

    def ob(self, rule, ok, desc, node=None, func=None, sig=None, detail=None, nontrivial=True):
        """Record one obligation.  `sig` is the rule's normal form of the
        construct (never a line number); defaults to the description."""
        where = None
        fq = None
        if func is not None:
            fq = func.qual if hasattr(func, "qual") else str(func)
            self.functions_analysed.add(fq)
        if node is not None:
            f = func if hasattr(func, "qual") else None
            where = self.proj.where(node, f)
            if fq is None:
                ef = self.proj.enclosing_func(node) or getattr(node, "_func", None)
                if ef is not None:
                    fq = ef.qual
                    self.functions_analysed.add(fq)
        elif func is not None and hasattr(func, "node"):
            where = self.proj.where(func.node, func)
        o = Obligation("%s.%s" % (self.pid, rule) if not rule.startswith(self.pid) else rule,
                       bool(ok), desc, where, fq, sig if sig is not None else desc, detail, nontrivial)
        self.obs.append(o)
        return bool(ok)

    def note(self, msg):
        self.notes.append(msg)

    def assume(self, msg):
        if msg not in self.assumptions:
            self.assumptions.append(msg)

    def require(self, cond, msg):
        if not cond:
            raise AnalysisError(msg)
        return cond

    def attempt(self, fn, *args):
        """Run a further part of a check.  If it cannot be analysed although an earlier part already reported a violation,
        the violation stands (a counterexample needs no further support); otherwise the run fails closed as usual."""
        from .absint import Unsupported
        try:
            return fn(self, *args)
        except (AnalysisError, Unsupported) as e:
            if all(o.ok for o in self.obs):
                raise AnalysisError(str(e)) if not isinstance(e, AnalysisError) else e
            self.note("%s not analysable on this tree (%s); the violation already found stands" % (getattr(fn, "__name__", "part"), e))

    def floor(self, rule, count, minimum, what):
        """Fail closed when a rule matched fewer instances than confirmed by
        hand: a rule matching nothing passes vacuously forever."""
        if count < minimum:
            raise AnalysisError(
                "%s.%s matched %d %s, expected at least %d (anchor moved or construct rewritten beyond the rule's reach)"
                % (self.pid, rule, count, what, minimum))

    # ------------------------------------------------------------ helpers
    def norm(self, node):
        return norm(node)


def load_known():
    p = os.path.join(VERIF, "known_findings.json")
    if not os.path.exists(p):
        return []
    with open(p) as fh:
        return json.load(fh).get("findings", [])


def match_known(o, pid, known):
    for k in known:
        if k.get("property") != pid or k.get("status") != "known":
            continue
        if k.get("rule") != o.rule:
            continue
        if k.get("function") and k.get("function") != (o.func or ""):
            continue
        if k.get("signature") != o.sig:
            continue
        return k
    return None


def finish(ctx, out=print, write=True):
    """Print the verdict, write evidence + replay files, return exit code."""
    pid = ctx.pid
    known = load_known()
    failed = [o for o in ctx.obs if not o.ok]
    new, listed = [], []
    seen = set()
    for o in failed:
        if o.key() in seen:
            continue
        seen.add(o.key())
        k = match_known(o, pid, known)
        if k:
            listed.append((o, k))
        else:
            new.append(o)
    n_ob = len(ctx.obs)
    n_ok = sum(1 for o in ctx.obs if o.ok)
    distinct = len({o.key() for o in ctx.obs if o.nontrivial})
    out("ANALYSED property=%s tier=%s root=%s units=%d functions=%d obligations=%d discharged=%d"
        % (pid, ctx.tier, ctx.root, len(ctx.proj.units), len(ctx.functions_analysed), n_ob, n_ok))
    for n in ctx.notes:
        out("NOTE: " + n)
    for o, k in listed:
        out("KNOWN-FINDING: property=%s %s %s :: %s [%s]" % (pid, o.rule, o.func or "", o.sig, k.get("id", "")))
    rdir = os.path.join(VERIF, "replay", pid)
    for o in new:
        h = hashlib.sha1(repr(o.key()).encode()).hexdigest()[:10]
        path = os.path.join(rdir, "%s-%s.json" % (o.rule.split(".")[-1], h))
        if write:
            os.makedirs(rdir, exist_ok=True)
            with open(path, "w") as fh:
                json.dump({"property": pid, "root": ctx.root, "tier": ctx.tier, **o.as_dict()}, fh, indent=1)
        out("VIOLATION property=%s replay=%s" % (pid, path))
        out("  %s  rule=%s  instance=%s" % (o.where or "?", o.rule, o.sig))
        out("  obligation: %s" % o.desc)
        if o.detail:
            out("  detail: %s" % (o.detail,))
    if write:
        samples = []
        pick = [o for o in ctx.obs if not o.ok][:6] + [o for o in ctx.obs if o.ok and o.nontrivial][:14]
        for o in pick:
            samples.append(o.as_dict())
        rules = sorted({o.rule for o in ctx.obs})
        ev = {
            "property_id": pid,
            "tier": ctx.tier if ctx.tier in ("quick", "thorough") else "quick",
            "seed": int(ctx.seed),
            "level": "other",
            "coverage": {
                "explanation": ctx.explanation or "static rules over the AST/CFG/call graph of /repo's working tree",
                "obligations": n_ob,
                "discharged": n_ok,
                "evaluations": n_ob,
                "distinct_nontrivial": distinct,
                "rule": "one evaluation = one obligation (rule instance) decided on the parsed source; "
                        "distinct = different (rule, function, construct signature); non-trivial = the rule "
                        "inspected at least one construct of the repository (bookkeeping obligations excluded)",
                "samples": samples,
                "rules": rules,
                "units": ctx.proj.units,
                "functions": sorted(ctx.functions_analysed),
                "known_findings_matched": [o.sig for o, _ in listed],
                "checker_cmd": "/venv/bin/python -m gffsa check %s --tier %s" % (pid, ctx.tier),
                "trusted_base": ["CPython ast", "gffsa engine", "specifications in gffsa/props and /verif/specs",
                                 "documented SQLite / Python library semantics named in DESIGN.md"],
            },
            "assumptions": ctx.assumptions,
            "wall_s": round(time.time() - ctx.t0, 3),
            "violations": len(new),
        }
        if ctx.exhaustive is not None:
            ev["coverage"]["exhaustive"] = bool(ctx.exhaustive)
        ev["coverage"].update(ctx.extra)
        os.makedirs(os.path.join(VERIF, "evidence"), exist_ok=True)
        with open(os.path.join(VERIF, "evidence", pid + ".json"), "w") as fh:
            json.dump(ev, fh, indent=1, default=str)
    return 1 if new else 0
