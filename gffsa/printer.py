"""Template analysis of parser._reconstruct (static string analysis, same
partitioned dataflow as for the SQL builders): for every dialect
configuration the printed attribute column of a symbolic mapping
{k1: [v1, v2], k2: [v3], k3: []} is obtained as a string with holes and
compared, token by token, with the template the dialect denotes.

Tokens: literal text, ('raw', v) a value printed as is, ('enc', v) a value
passed per character through the percent-encoder.
"""
import itertools

from .absint import Interp, Sym, AStr, Rep, Opaque, Unsupported

MAPPING = [("k1", ["v1", "v2"]), ("k2", ["v3"]), ("k3", [])]
# further shapes for the thorough tier: three values, flag first, single key, only flags
MAPPINGS_THOROUGH = [
    [("k3", []), ("k1", ["v1", "v2", "v3"]), ("k2", ["v4"])],
    [("k1", ["v1"])],
    [("k2", []), ("k3", [])],
    [("k1", ["v1", "v2"]), ("k2", ["v3", "v4"])],
]


def configs(tier="quick"):
    seps = [";", "; ", " ; "]
    for fmt, rep, quoted, trailing, fsep, kvsep, ignore in itertools.product(
            ("gff3", "gtf"), (False, True), (False, True), (False, True), seps, ("=", " "), (False, True)):
        yield {"fmt": fmt, "repeated keys": rep, "quoted GFF2 values": quoted, "trailing semicolon": trailing,
               "field separator": fsep, "keyval separator": kvsep, "multival separator": ",",
               "leading semicolon": False, "order": ["k1", "k2", "k3"], "_ignore": ignore, "_keep_order": False}
    # keep_order: keys are printed in the dialect's order, keys unknown to it last (in mapping order)
    for order in (["k2", "k1", "k3"], ["k3", "k1"], ["k2"], [], ["k3", "k2", "k1", "zz"]):
        for fmt, rep in itertools.product(("gff3", "gtf"), (False, True)):
            yield {"fmt": fmt, "repeated keys": rep, "quoted GFF2 values": fmt == "gtf", "trailing semicolon": False,
                   "field separator": ";", "keyval separator": "=" if fmt == "gff3" else " ", "multival separator": ",",
                   "leading semicolon": False, "order": order, "_ignore": False, "_keep_order": True}


def spec_tokens(cfg, mapping_=None):
    encode = cfg["fmt"] == "gff3" and not cfg["_ignore"]
    parts = []

    def val(v):
        return ("enc", v) if encode else ("raw", v)

    def q(toks):
        return ['"'] + toks + ['"'] if cfg["quoted GFF2 values"] else toks
    mapping = list(mapping_ or MAPPING)
    if cfg.get("_keep_order"):
        rank = lambda kv: cfg["order"].index(kv[0]) if kv[0] in cfg["order"] else 10 ** 6
        mapping = sorted(mapping, key=rank)  # stable: unknown keys keep their mapping order
    for key, vals in mapping:
        groups = [[v] for v in vals] if (cfg["repeated keys"] and len(vals) > 1) else [vals]
        for g in groups:
            if g:
                toks = []
                for i, v in enumerate(g):
                    if i:
                        toks.append(cfg["multival separator"])
                    toks.append(val(v))
                parts.append([key, cfg["keyval separator"]] + q(toks))
            else:
                if cfg["fmt"] == "gtf":
                    parts.append([key, cfg["keyval separator"], '""'])
                else:
                    parts.append([key])
    out = []
    for i, p in enumerate(parts):
        if i:
            out.append(cfg["field separator"])
        out.extend(p)
    if cfg["trailing semicolon"]:
        out.append(";")
    return merge(out)


def merge(tokens):
    out = []
    for t in tokens:
        if isinstance(t, str) and out and isinstance(out[-1], str):
            out[-1] += t
        elif t != "":
            out.append(t)
    return out


def tokens_of(value):
    """AStr / str -> token list (or raises ValueError for holes that are
    neither a raw value nor a per-character encoding of one)."""
    if isinstance(value, str):
        return merge([value])
    if not isinstance(value, AStr):
        raise ValueError("printed value is not a string: %r" % (value,))
    out = []
    for p in value.parts:
        if isinstance(p, str):
            out.append(p)
        elif isinstance(p, Sym):
            out.append(("raw", p.name))
        elif isinstance(p, Rep):
            over = getattr(p.over, "name", None)
            tmpl = p.template
            tname = tmpl.name if isinstance(tmpl, Sym) else (tmpl.parts[0].name if isinstance(tmpl, AStr) and len(tmpl.parts) == 1 and isinstance(tmpl.parts[0], Sym) else None)
            if p.sep == "" and tname is not None and tname.startswith("quoter[") and over is not None and ("%s[]" % over) in tname:
                out.append(("enc", over))
            elif p.sep == "" and tmpl is None:
                out.append(("raw", over))
            else:
                raise ValueError("unrecognised per-character transformation %r" % (p,))
        else:
            raise ValueError("unexpected part %r" % (p,))
    return merge(out)


def show(tokens):
    return "".join(t if isinstance(t, str) else ("‹%s›" % t[1] if t[0] == "raw" else "‹%%%s›" % t[1]) for t in tokens)


def run(ctx, func, cfg, mapping_=None):
    interp = Interp(ctx, overrides={("constants", "ignore_url_escape_characters"): cfg["_ignore"]})
    dialect = {k: v for k, v in cfg.items() if not k.startswith("_")}
    keyvals = {k: [Sym(v, "str", True) for v in vals] for k, vals in (mapping_ or MAPPING)}
    traces = interp.run(func, {"keyvals": keyvals, "dialect": dialect, "keep_order": bool(cfg.get("_keep_order")), "sort_attribute_values": False})
    return traces


# ===================================================================== parser
# Template-level round trip: the template a consistent dialect denotes for the
# symbolic mapping is fed to parser._split_keyvals (same dataflow domain:
# strings with holes; holes are free of the structural characters), once with
# the dialect supplied and once inferred.  Expected: the mapping comes back,
# and inference reports the dialect the template was written in.

STRUCTURAL = ' ;=,"\t\n%&'

FAMILIES = {
    # name: (fmt reported by inference, key/value separator, quoted)
    "gff3": ("gff3", "=", False),
    "gtf": ("gtf", " ", True),
    "gff2-unquoted": ("gff3", " ", False),   # inference leaves fmt at its default for unquoted blank-separated values
}


def parse_configs():
    for fam, (fmt, kvsep, quoted) in FAMILIES.items():
        for fsep, trailing, rep in itertools.product((";", "; ", " ; "), (False, True), (False, True)):
            yield fam, {"fmt": fmt, "repeated keys": rep, "quoted GFF2 values": quoted, "trailing semicolon": trailing,
                        "field separator": fsep, "keyval separator": kvsep, "multival separator": ",",
                        "leading semicolon": False, "order": ["k1", "k2", "k3"], "_ignore": False}


PARSE_MAPPINGS = [
    [("k1", ["v1", "v2"]), ("k2", ["v3"]), ("k3", [])],
    [("k1", ["v1"]), ("k2", ["v2", "v3"])],
]
# values that contain percent-escapes of structural characters, written literally ("lit:" marks literal text): in a gff3
# dialect each comes back as ONE decoded value (decoding happens per value, after the split); elsewhere unchanged
PARSE_MAPPINGS_ESCAPES = [
    [("k1", ["lit:x%2Cy", "lit:p+q"]), ("k2", ["lit:a%3Bb%3Dc"])],
]
# quoted values may contain blanks (runs of them): they come back unchanged
PARSE_MAPPINGS_QUOTED = [
    [("k1", ["w1  w2"]), ("k2", ["v3 w3"])],
    [("k1", ["w1=w2"]), ("k2", ["v3"])],
]
# ...and, when the field separator carries a blank, a semicolon (not followed / surrounded by blanks) inside a quoted value
PARSE_MAPPINGS_QUOTED_SEMI = [
    [("k1", ["w1;w2"]), ("k2", ["v3"])],
]


def template_astr(cfg, mapping_):
    """The template as a string with holes.  An encoded value is the hole
    enc(v): percent-decoding it yields v; decoding a raw hole v yields dec(v)."""
    parts = []
    for t in spec_tokens(cfg, mapping_):
        if isinstance(t, str):
            parts.append(t)
        elif t[1].startswith("lit:"):
            parts.append(t[1][4:])
        elif t[0] == "enc":
            parts.append(Sym("enc(%s)" % t[1], "str", True))
        elif " " in t[1] or "=" in t[1] or ";" in t[1]:
            # a value with blanks, '=' or ';' inside (legitimate inside quotes): holes joined by the literal characters
            import re as _re
            for piece in _re.split(r"([ =;]+)", t[1]):
                if piece:
                    parts.append(piece if not piece.strip(" =;") else Sym(piece, "str", True))
        else:
            parts.append(Sym(t[1], "str", True))
    return AStr(parts)


def _percent_decode(text):
    import re as _re
    return _re.sub(r"%([0-9A-Fa-f]{2})", lambda m: chr(int(m.group(1), 16)), text)


def value_name(v, decoded=False):
    """How names_of renders the value named v (decoded: the parser is expected to percent-decode it)."""
    if v.startswith("lit:"):
        return _percent_decode(v[4:]) if decoded else v[4:]
    if " " not in v and "=" not in v and ";" not in v:
        return v
    import re as _re
    return "".join(p if not p.strip(" =;") else "\u27e6%s\u27e7" % p for p in _re.split(r"([ =;]+)", v) if p)


def _unquote_summary(interp, pos, kw, node):
    v = pos[0]
    name = v.name if isinstance(v, Sym) else (v.parts[0].name if isinstance(v, AStr) and len(v.parts) == 1 and isinstance(v.parts[0], Sym) else None)
    interp.trace.events.append(("unquote", v, node))
    if name is None:
        if isinstance(v, str):
            return _percent_decode(v)
        if isinstance(v, AStr):
            # composite text: decode hole by hole, literal text is free of '%' in these templates
            out = []
            for p_ in v.parts:
                if isinstance(p_, Sym):
                    out.append(_unquote_summary(interp, [p_], {}, node))
                else:
                    out.append(p_)
            return AStr(out).simplify()
        raise Unsupported("percent-decoding of %r" % (v,))
    if name.startswith("enc(") and name.endswith(")"):
        return Sym(name[4:-1], "str", True)
    return Sym("dec(%s)" % name, "str", True)


def parse_run(ctx, func, text, dialect, pattern, ignore=False, shared_default=None):
    from .absint import RegexVal, TypeVal
    ov = {("constants", "ignore_url_escape_characters"): ignore,
          ("feature", "dict_class"): TypeVal("dict"), ("attributes", "dict_class"): TypeVal("dict"), ("parser", "dict_class"): TypeVal("dict")}
    for name_, pattern_ in (pattern.items() if isinstance(pattern, dict) else ([pattern] if pattern is not None else [])):
        ov[("parser", name_)] = RegexVal(pattern_)
    if shared_default is not None:
        ov[("constants", "dialect")] = shared_default         # the very object: a store into it is visible to the caller
    interp = Interp(ctx, overrides=ov)
    interp.ext_summaries["urllib.parse.unquote"] = _unquote_summary
    interp.hole_free_of = STRUCTURAL
    interp.holes_containing = {"enc(": "%"}      # an encoded value stands for text with at least one escape in it
    return interp.run(func, {"keyval_str": text, "dialect": dialect})


def names_of(quals):
    """{key: [value names]} of a parsed mapping."""
    out = {}
    for k, vals in quals.items():
        k_ = k if isinstance(k, str) else (k.render() if isinstance(k, AStr) else repr(k))
        vs = []
        for v in vals:
            if isinstance(v, Sym):
                vs.append(v.name)
            elif isinstance(v, AStr):
                vs.append(v.parts[0].name if len(v.parts) == 1 and isinstance(v.parts[0], Sym) else v.render())
            else:
                vs.append(v)
        out[k_] = vs
    return out


# ---------------------------------------------------------------------------------------------------------------------
# Literal round trip: concrete values that contain the structural characters themselves.  Printing (with the dialect) and
# parsing the printed text (with that dialect, and inferring it) must give the mapping back; in a gff3 dialect the printed
# text is the one the statement's encode set prescribes.
RESERVED = set("\t\n\r%;=&,") | {chr(i) for i in range(32)} | {chr(127)}
LITERAL_GFF3 = [
    [("ID", ["g1"]), ("Note", ["kinase, putative", "a;b=c"]), ("pct", ["100%", "%41", "x%2Cy", "%2525"]), ("ctl", ["tab\there", "amp&ersand"]), ("flag", [])],
    [("k", ["v"]), ("Parent", ["p1", "p2"]), ("partial", [])],
]
# GTF-style dialects have no escaping: values free of ';', '"', ',' and control characters
LITERAL_PLAIN = [
    [("gene_id", ["g1"]), ("note", ["a b", "x=y"]), ("pct", ["100%", "%41"])],
]


def spec_encode(v):
    return "".join("%%%02X" % ord(c) if c in RESERVED else c for c in v)


def spec_text(cfg, mapping_, encode):
    """The attribute column the dialect denotes for a concrete mapping (independent of the code)."""
    toks = []
    for t in spec_tokens(dict(cfg, _ignore=not encode), mapping_):
        if isinstance(t, str):
            toks.append(t)
        else:
            toks.append(spec_encode(t[1]) if t[0] == "enc" else t[1])
    return "".join(toks)


def literal_roundtrip(ctx, rc, sk, pat, cfg, mapping_, ignore=False):
    """(printed text or ('raise', ..), {mode: parsed mapping or ('raise', ..)}) for one dialect and one concrete mapping."""
    from .absint import RegexVal, TypeVal
    dialect = {k: v for k, v in cfg.items() if not k.startswith("_")}
    dialect["order"] = [k for k, _v in mapping_]
    ov = {("constants", "ignore_url_escape_characters"): ignore,
          ("feature", "dict_class"): TypeVal("dict"), ("attributes", "dict_class"): TypeVal("dict"), ("parser", "dict_class"): TypeVal("dict")}
    for name_, pattern_ in (pat.items() if isinstance(pat, dict) else ([pat] if pat is not None else [])):
        ov[("parser", name_)] = RegexVal(pattern_)
    interp = Interp(ctx, overrides=ov)
    from .scenario import install_json
    interp.ext_summaries["urllib.parse.unquote"] = _unquote_summary
    keyvals = {k: list(vs) for k, vs in mapping_}
    traces = interp.run(rc, {"keyvals": keyvals, "dialect": dict(dialect), "keep_order": True, "sort_attribute_values": False})
    if len(traces) != 1:
        return ("fork", len(traces)), {}
    t = traces[0]
    if t.result[0] != "return":
        return ("raise", t.result[1]), {}
    text = t.result[1]
    if isinstance(text, AStr):
        text = text.simplify()
    if not isinstance(text, str):
        return ("abstract", repr(text)[:80]), {}
    out = {}
    for mode, d in (("supplied", dict(dialect)), ("inferred", None)):
        tr = interp.run(sk, {"keyval_str": text, "dialect": d})
        if len(tr) != 1:
            out[mode] = ("fork", len(tr))
            continue
        r = tr[0].result
        if r[0] != "return":
            out[mode] = ("raise", r[1])
        elif not (isinstance(r[1], tuple) and len(r[1]) == 2 and isinstance(r[1][0], dict)):
            out[mode] = ("odd", repr(r[1])[:60])
        else:
            q = r[1][0]
            out[mode] = {k: ([x.simplify() if isinstance(x, AStr) else x for x in v] if isinstance(v, list) else ("not a list", v)) for k, v in q.items()}
    return text, out
