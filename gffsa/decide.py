"""E6 -- small decision procedures on formulas extracted from the AST or from
parsed SQL (the repository is never run).

(a) order / difference predicates over integer variables: exhaustive
    evaluation on a grid that is complete for the formula class (comparisons
    between variables plus constants of magnitude <= c need a grid of
    n*(c+1) points: small-model property of difference logic);
(b) boolean guard agreement by truth table;
(c) threshold predicates (variable vs constant): evaluation at c-1, c, c+1 of
    every constant.
"""
import ast
import itertools


def grid_assignments(names, size):
    for vals in itertools.product(range(size), repeat=len(names)):
        yield dict(zip(names, vals))


def find_counterexample(names, formula, side=None, size=None, max_const=1):
    """First assignment over the grid with side(env) true and formula(env)
    false; None when the formula holds everywhere."""
    size = size or max(2, len(names) * (max_const + 1))
    for env in grid_assignments(names, size):
        if side is not None and not side(env):
            continue
        if not formula(env):
            return env
    return None


def equivalent(names, f, g, side=None, size=None, max_const=1):
    return find_counterexample(names, lambda e: bool(f(e)) == bool(g(e)), side, size, max_const)


def implies(names, f, g, side=None, size=None, max_const=1):
    return find_counterexample(names, lambda e: (not f(e)) or bool(g(e)), side, size, max_const)


# ------------------------------------------------------------- SQL -> fn
def sql_pred(expr, resolve):
    """Compile a parsed SQL boolean expression to env -> bool.  `resolve`
    maps a leaf (col/param/hole/num tuple) to a variable name or a number."""
    k = expr[0]
    if k == "and":
        fs = [sql_pred(x, resolve) for x in expr[1]]
        return lambda e: all(f(e) for f in fs)
    if k == "or":
        fs = [sql_pred(x, resolve) for x in expr[1]]
        return lambda e: any(f(e) for f in fs)
    if k == "not":
        f = sql_pred(expr[1], resolve)
        return lambda e: not f(e)
    if k == "cmp":
        l = sql_term(expr[2], resolve)
        r = sql_term(expr[3], resolve)
        op = expr[1]
        table = {
            "=": lambda a, b: a == b, "!=": lambda a, b: a != b,
            "<": lambda a, b: a < b, "<=": lambda a, b: a <= b,
            ">": lambda a, b: a > b, ">=": lambda a, b: a >= b,
        }[op]
        return lambda e: table(l(e), r(e))
    raise ValueError("not a boolean SQL expression: %r" % (expr,))


def sql_term(expr, resolve):
    k = expr[0]
    if k == "arith":
        l = sql_term(expr[2], resolve)
        r = sql_term(expr[3], resolve)
        op = expr[1]
        if op == "+":
            return lambda e: l(e) + r(e)
        if op == "-":
            return lambda e: l(e) - r(e)
        if op == "*":
            return lambda e: l(e) * r(e)
        raise ValueError(op)
    v = resolve(expr)
    if isinstance(v, (int, float)):
        return lambda e: v
    return lambda e: e[v]


def sql_leaves(expr):
    out = []
    if expr is None or not isinstance(expr, tuple):
        return out
    if expr[0] in ("col", "param", "hole", "num", "str", "arg"):
        return [expr]
    for x in expr[1:]:
        if isinstance(x, tuple):
            out += sql_leaves(x)
        elif isinstance(x, list):
            for y in x:
                out += sql_leaves(y)
    return out


# ---------------------------------------------------------- Python -> fn
def py_pred(node, resolve):
    """Compile a Python comparison / boolean expression (ast) to env -> value.
    `resolve(node)` returns a variable name, a number, or None (unsupported)."""
    if isinstance(node, ast.BoolOp):
        fs = [py_pred(v, resolve) for v in node.values]
        if isinstance(node.op, ast.And):
            return lambda e: all(f(e) for f in fs)
        return lambda e: any(f(e) for f in fs)
    if isinstance(node, ast.UnaryOp) and isinstance(node.op, ast.Not):
        f = py_pred(node.operand, resolve)
        return lambda e: not f(e)
    if isinstance(node, ast.Compare):
        terms = [py_term(node.left, resolve)] + [py_term(c, resolve) for c in node.comparators]
        ops = []
        for op in node.ops:
            ops.append({
                ast.Eq: lambda a, b: a == b, ast.NotEq: lambda a, b: a != b,
                ast.Lt: lambda a, b: a < b, ast.LtE: lambda a, b: a <= b,
                ast.Gt: lambda a, b: a > b, ast.GtE: lambda a, b: a >= b,
            }[type(op)])

        def f(e):
            vals = [t(e) for t in terms]
            return all(o(a, b) for o, a, b in zip(ops, vals, vals[1:]))
        return f
    t = py_term(node, resolve)
    return lambda e: bool(t(e))


def py_term(node, resolve):
    if isinstance(node, ast.BinOp) and isinstance(node.op, (ast.Add, ast.Sub)):
        l = py_term(node.left, resolve)
        r = py_term(node.right, resolve)
        if isinstance(node.op, ast.Add):
            return lambda e: l(e) + r(e)
        return lambda e: l(e) - r(e)
    if isinstance(node, ast.Constant) and isinstance(node.value, (int, float)) and not isinstance(node.value, bool):
        v = node.value
        return lambda e: v
    if isinstance(node, ast.UnaryOp) and isinstance(node.op, ast.USub):
        t = py_term(node.operand, resolve)
        return lambda e: -t(e)
    v = resolve(node)
    if v is None:
        raise ValueError("unsupported term %s" % ast.dump(node))
    if isinstance(v, (int, float)):
        return lambda e: v
    return lambda e: e[v]


def truth_table(atoms, f, g):
    """First valuation of the boolean atoms where f and g differ."""
    for vals in itertools.product([False, True], repeat=len(atoms)):
        env = dict(zip(atoms, vals))
        if bool(f(env)) != bool(g(env)):
            return env
    return None


