"""E5 -- SQL front end for the SQLite subset gffutils uses.

Tokenizer + recursive-descent parser, placeholder inventory (textual order =
SQLite binding order), and a conjunctive-query normal form for SELECTs that is
compared up to renaming of aliases.

Abstract strings (absint.AStr) are rendered with holes written as
``⟦name⟧`` (value hole), ``⟦*name⟧`` (repeat hole: a comma/or
separated list of unknown length) -- the tokenizer turns them into tokens.
"""
import itertools
import re


class SQLError(Exception):
    pass


TOKEN_RE = re.compile(
    r"""\s*(?:
      (?P<hole>⟦(?:[^⟦⟧]|⟦[^⟦⟧]*⟧)*⟧)
    | (?P<num>\d+(?:\.\d+)?)
    | (?P<str>'(?:[^']|'')*')
    | (?P<named>:[A-Za-z_][A-Za-z_0-9]*)
    | (?P<q>\?)
    | (?P<op>==|<=|>=|<>|!=|=|<|>|\|\||\+|-|\*|/)
    | (?P<punct>[(),.;])
    | (?P<id>[A-Za-z_][A-Za-z_0-9]*|"[^"]*"|`[^`]*`)
    )""",
    re.X,
)

KEYWORDS = {
    "select", "distinct", "from", "where", "and", "or", "not", "in", "as",
    "join", "on", "order", "by", "asc", "desc", "insert", "into", "values",
    "update", "set", "delete", "create", "table", "index", "drop", "if",
    "exists", "primary", "key", "analyze", "pragma", "replace", "ignore",
    "inner", "left", "outer", "cross", "unique", "limit", "group", "having",
    "is", "null", "between", "like", "union", "all", "offset",
}


class Tok:
    __slots__ = ("kind", "val", "pos")

    def __init__(self, kind, val, pos):
        self.kind, self.val, self.pos = kind, val, pos

    def __repr__(self):
        return "%s:%r" % (self.kind, self.val)


def tokenize(text):
    toks, i, qn = [], 0, 0
    n = len(text)
    while i < n:
        if text[i:].strip() == "":
            break
        m = TOKEN_RE.match(text, i)
        if not m or m.end() == i:
            raise SQLError("cannot tokenize at %r" % text[i:i + 30])
        i = m.end()
        k = m.lastgroup
        v = m.group(k)
        if k == "id":
            lv = v.lower()
            if lv in KEYWORDS:
                toks.append(Tok("kw", lv, m.start(k)))
            else:
                toks.append(Tok("id", v.strip('"`'), m.start(k)))
        elif k == "q":
            toks.append(Tok("param", ("?", qn), m.start(k)))
            qn += 1
        elif k == "named":
            toks.append(Tok("param", (v[1:], qn), m.start(k)))
            qn += 1
        elif k == "hole":
            toks.append(Tok("hole", v[1:-1], m.start(k)))
        elif k == "num":
            toks.append(Tok("num", float(v) if "." in v else int(v), m.start(k)))
        elif k == "str":
            toks.append(Tok("str", v[1:-1].replace("''", "'"), m.start(k)))
        else:
            toks.append(Tok(k, v, m.start(k)))
    return toks


# --------------------------------------------------------------------- AST
class Select:
    def __init__(self):
        self.distinct = False
        self.cols = []  # list of (expr, alias)
        self.source = None  # TableRef
        self.joins = []  # (TableRef, on-expr or None)
        self.where = None
        self.order_by = []  # (expr, 'asc'|'desc'|None)
        self.group_by = []
        self.having = None
        self.limit = None
        self.offset = None
        self.verb = "SELECT"

    def tables(self):
        out = []
        for ref in [self.source] + [j[0] for j in self.joins]:
            if ref is None:
                continue
            if ref[0] == "table":
                out.append(ref[1].lower())
            else:
                out.extend(ref[1].tables())
        for e in iter_exprs(self.where):
            if e[0] == "in" and isinstance(e[2], Select):
                out.extend(e[2].tables())
        return out


class Stmt:
    def __init__(self, verb, **kw):
        self.verb = verb
        self.__dict__.update(kw)

    def tables(self):
        t = getattr(self, "table", None)
        return [t.lower()] if t else []


def iter_exprs(e):
    if e is None or not isinstance(e, tuple):
        return
    yield e
    for x in e[1:]:
        if isinstance(x, tuple):
            yield from iter_exprs(x)
        elif isinstance(x, list):
            for y in x:
                yield from iter_exprs(y)


class Parser:
    def __init__(self, text):
        self.text = text
        self.toks = tokenize(text)
        self.i = 0

    # helpers
    def peek(self, k=0):
        j = self.i + k
        return self.toks[j] if j < len(self.toks) else Tok("eof", None, len(self.text))

    def next(self):
        t = self.peek()
        self.i += 1
        return t

    def at_kw(self, *kws):
        t = self.peek()
        return t.kind == "kw" and t.val in kws

    def at(self, kind, val=None):
        t = self.peek()
        return t.kind == kind and (val is None or t.val == val)

    def expect_kw(self, kw):
        t = self.next()
        if t.kind != "kw" or t.val != kw:
            raise SQLError("expected %s, got %r" % (kw.upper(), t))
        return t

    def expect(self, kind, val=None):
        t = self.next()
        if t.kind != kind or (val is not None and t.val != val):
            raise SQLError("expected %s %s, got %r" % (kind, val or "", t))
        return t

    def ident(self):
        t = self.next()
        if t.kind == "id":
            return t.val
        if t.kind == "kw" and t.val in ("key", "index", "replace", "ignore", "all", "left", "if"):
            return t.val
        if t.kind == "hole":
            return "⟦" + t.val + "⟧"
        raise SQLError("expected identifier, got %r" % (t,))

    # statements
    def parse_script(self):
        out = []
        while not self.at("eof"):
            if self.at("punct", ";"):
                self.next()
                continue
            out.append(self.parse_statement())
        return out

    def parse_statement(self):
        t = self.peek()
        if t.kind != "kw":
            raise SQLError("statement expected, got %r" % (t,))
        if t.val == "select":
            s = self.parse_select()
        elif t.val == "insert" or t.val == "replace":
            s = self.parse_insert()
        elif t.val == "update":
            s = self.parse_update()
        elif t.val == "delete":
            s = self.parse_delete()
        elif t.val == "create":
            s = self.parse_create()
        elif t.val == "drop":
            s = self.parse_drop()
        elif t.val == "analyze":
            self.next()
            s = Stmt("ANALYZE", table=self.ident() if not self.at("eof") and not self.at("punct", ";") else None)
        elif t.val == "pragma":
            self.next()
            name = self.ident()
            while self.at("punct", "."):
                self.next()
                name += "." + self.ident()
            val = None
            if self.at("op", "="):
                self.next()
                val = self.next().val
            s = Stmt("PRAGMA", name=name, value=val, table=None)
        else:
            raise SQLError("unsupported statement %r" % (t,))
        if self.at("punct", ";"):
            self.next()
        return s

    def parse_select(self):
        self.expect_kw("select")
        s = Select()
        if self.at_kw("distinct"):
            self.next()
            s.distinct = True
        elif self.at_kw("all"):
            self.next()
        s.cols.append(self.parse_result_col())
        while self.at("punct", ","):
            self.next()
            s.cols.append(self.parse_result_col())
        if self.at_kw("from"):
            self.next()
            s.source = self.parse_table_ref()
            while True:
                if self.at("punct", ","):
                    self.next()
                    s.joins.append((self.parse_table_ref(), None))
                    continue
                if self.at_kw("inner", "left", "cross", "outer"):
                    self.next()
                    if self.at_kw("outer"):
                        self.next()
                if self.at_kw("join"):
                    self.next()
                    ref = self.parse_table_ref()
                    on = None
                    if self.at_kw("on"):
                        self.next()
                        on = self.parse_expr()
                    s.joins.append((ref, on))
                    continue
                break
        if self.at_kw("where"):
            self.next()
            s.where = self.parse_expr()
        if self.at_kw("group"):
            self.next()
            self.expect_kw("by")
            s.group_by = [self.parse_expr()]
            while self.at("punct", ","):
                self.next()
                s.group_by.append(self.parse_expr())
            if self.at_kw("having"):
                self.next()
                s.having = self.parse_expr()
        if self.at_kw("order"):
            self.next()
            self.expect_kw("by")
            while True:
                e = self.parse_expr()
                d = None
                if self.at_kw("asc", "desc"):
                    d = self.next().val
                s.order_by.append((e, d))
                if self.at("punct", ","):
                    self.next()
                    continue
                break
        if self.at_kw("limit"):
            self.next()
            s.limit = self.parse_expr()
            if self.at_kw("offset"):
                self.next()
                s.offset = self.parse_expr()
        return s

    def parse_result_col(self):
        if self.at("op", "*"):
            self.next()
            return (("star", None), None)
        e = self.parse_expr()
        alias = None
        if self.at_kw("as"):
            self.next()
            alias = self.ident()
        elif self.at("id"):
            alias = self.ident()
        return (e, alias)

    def parse_table_ref(self):
        if self.at("punct", "("):
            self.next()
            sub = self.parse_select()
            self.expect("punct", ")")
            alias = None
            if self.at_kw("as"):
                self.next()
                alias = self.ident()
            elif self.at("id"):
                alias = self.ident()
            return ("subquery", sub, alias)
        name = self.ident()
        alias = None
        if self.at_kw("as"):
            self.next()
            alias = self.ident()
        elif self.at("id"):
            alias = self.ident()
        return ("table", name, alias)

    def parse_insert(self):
        orc = None
        if self.at_kw("replace"):
            self.next()
            orc = "replace"
        else:
            self.expect_kw("insert")
            if self.at_kw("or"):
                self.next()
                orc = self.next().val
        self.expect_kw("into")
        table = self.ident()
        cols = None
        if self.at("punct", "("):
            self.next()
            cols = [self.ident()]
            while self.at("punct", ","):
                self.next()
                cols.append(self.ident())
            self.expect("punct", ")")
        if self.at_kw("select"):
            # INSERT ... SELECT: the row is the select's result columns, written only for rows the select yields
            sub = self.parse_select()
            return Stmt("INSERT", table=table, or_clause=orc, columns=cols, values=[c[0] for c in sub.cols], select=sub)
        self.expect_kw("values")
        self.expect("punct", "(")
        vals = [self.parse_expr()]
        while self.at("punct", ","):
            self.next()
            vals.append(self.parse_expr())
        self.expect("punct", ")")
        return Stmt("INSERT", table=table, or_clause=orc, columns=cols, values=vals, select=None)

    def parse_update(self):
        self.expect_kw("update")
        table = self.ident()
        self.expect_kw("set")
        sets = []
        if self.at("hole"):
            sets = ("hole", self.next().val)
        else:
            while True:
                col = self.ident()
                self.expect("op", "=")
                sets.append((col, self.parse_expr()))
                if self.at("punct", ","):
                    self.next()
                    continue
                break
        where = None
        if self.at_kw("where"):
            self.next()
            where = self.parse_expr()
        return Stmt("UPDATE", table=table, sets=sets, where=where)

    def parse_delete(self):
        self.expect_kw("delete")
        self.expect_kw("from")
        table = self.ident()
        where = None
        if self.at_kw("where"):
            self.next()
            where = self.parse_expr()
        return Stmt("DELETE", table=table, where=where)

    def parse_create(self):
        self.expect_kw("create")
        unique = False
        if self.at_kw("unique"):
            self.next()
            unique = True
        if self.at_kw("table"):
            self.next()
            ine = False
            if self.at_kw("if"):
                self.next()
                self.expect_kw("not")
                self.expect_kw("exists")
                ine = True
            name = self.ident()
            self.expect("punct", "(")
            cols, pk = [], []
            while True:
                if self.at_kw("primary"):
                    self.next()
                    self.expect_kw("key")
                    self.expect("punct", "(")
                    pk.append(self.ident())
                    while self.at("punct", ","):
                        self.next()
                        pk.append(self.ident())
                    self.expect("punct", ")")
                else:
                    cname = self.ident()
                    ctype = []
                    while not self.at("punct", ",") and not self.at("punct", ")"):
                        t = self.next()
                        if t.kind == "eof":
                            raise SQLError("unterminated CREATE TABLE")
                        ctype.append(str(t.val))
                    if "primary" in ctype:
                        pk.append(cname)
                    cols.append((cname, " ".join(ctype)))
                if self.at("punct", ","):
                    self.next()
                    continue
                break
            self.expect("punct", ")")
            return Stmt("CREATE TABLE", table=name, columns=cols, pk=pk, if_not_exists=ine)
        if self.at_kw("index"):
            self.next()
            ine = False
            if self.at_kw("if"):
                self.next()
                self.expect_kw("not")
                self.expect_kw("exists")
                ine = True
            name = self.ident()
            self.expect_kw("on")
            table = self.ident()
            self.expect("punct", "(")
            cols = [self.ident()]
            while self.at("punct", ","):
                self.next()
                cols.append(self.ident())
            self.expect("punct", ")")
            return Stmt("CREATE INDEX", name=name, table=table, columns=cols, unique=unique, if_not_exists=ine)
        raise SQLError("unsupported CREATE")

    def parse_drop(self):
        self.expect_kw("drop")
        what = self.next().val
        ie = False
        if self.at_kw("if"):
            self.next()
            self.expect_kw("exists")
            ie = True
        t = self.next()
        name = t.val if t.kind in ("id", "kw") else str(t.val)
        return Stmt("DROP " + str(what).upper(), name=name, if_exists=ie, table=None)

    # expressions --------------------------------------------------------
    def parse_expr(self):
        return self.parse_or()

    def parse_or(self):
        items = [self.parse_and()]
        while self.at_kw("or"):
            self.next()
            items.append(self.parse_and())
        return items[0] if len(items) == 1 else ("or", items)

    def parse_and(self):
        items = [self.parse_not()]
        while self.at_kw("and"):
            self.next()
            items.append(self.parse_not())
        return items[0] if len(items) == 1 else ("and", items)

    def parse_not(self):
        if self.at_kw("not"):
            self.next()
            return ("not", self.parse_not())
        return self.parse_cmp()

    def parse_cmp(self):
        left = self.parse_add()
        if self.at("op") and self.peek().val in ("=", "==", "<", "<=", ">", ">=", "!=", "<>"):
            op = self.next().val
            op = {"==": "=", "<>": "!="}.get(op, op)
            right = self.parse_add()
            return ("cmp", op, left, right)
        neg = False
        if self.at_kw("not") and self.peek(1).kind == "kw" and self.peek(1).val == "in":
            self.next()
            neg = True
        if self.at_kw("in"):
            self.next()
            self.expect("punct", "(")
            if self.at_kw("select"):
                rhs = self.parse_select()
            else:
                rhs = []
                if not self.at("punct", ")"):
                    rhs.append(self.parse_expr())
                    while self.at("punct", ","):
                        self.next()
                        rhs.append(self.parse_expr())
            self.expect("punct", ")")
            e = ("in", left, rhs)
            return ("not", e) if neg else e
        if self.at_kw("between") or (self.at_kw("not") and self.peek(1).kind == "kw" and self.peek(1).val == "between"):
            # x [NOT] BETWEEN a AND b  ==  [NOT] (x >= a AND x <= b); the operands bind tighter than AND
            nb = self.at_kw("not")
            if nb:
                self.next()
            self.next()
            lo = self.parse_add()
            self.expect_kw("and")
            hi = self.parse_add()
            e = ("and", [("cmp", ">=", left, lo), ("cmp", "<=", left, hi)])
            return ("not", e) if nb else e
        if self.at_kw("is"):
            self.next()
            n = False
            if self.at_kw("not"):
                self.next()
                n = True
            self.expect_kw("null")
            return ("isnull", left, n)
        return left

    def parse_add(self):
        left = self.parse_mul()
        while self.at("op") and self.peek().val in ("+", "-", "||"):
            op = self.next().val
            right = self.parse_mul()
            left = ("arith", op, left, right)
        return left

    def parse_mul(self):
        left = self.parse_atom()
        while self.at("op") and self.peek().val in ("*", "/"):
            op = self.next().val
            right = self.parse_atom()
            left = ("arith", op, left, right)
        return left

    def parse_atom(self):
        t = self.next()
        if t.kind == "punct" and t.val == "(":
            if self.at_kw("select"):
                s = self.parse_select()
                self.expect("punct", ")")
                return ("subselect", s)
            e = self.parse_expr()
            self.expect("punct", ")")
            return e
        if t.kind == "num":
            return ("num", t.val)
        if t.kind == "str":
            return ("str", t.val)
        if t.kind == "param":
            return ("param", t.val[1], t.val[0])
        if t.kind == "hole":
            return ("hole", t.val)
        if t.kind == "kw" and t.val == "null":
            return ("null",)
        if t.kind == "kw" and t.val == "exists":
            self.expect("punct", "(")
            s = self.parse_select()
            self.expect("punct", ")")
            return ("exists", ("subselect", s))
        if t.kind == "op" and t.val == "-":
            e = self.parse_atom()
            return ("arith", "-", ("num", 0), e)
        if t.kind == "id" or (t.kind == "kw" and t.val in ("replace", "key", "index", "left")):
            name = t.val
            if self.at("punct", "("):
                self.next()
                args = []
                if self.at("op", "*"):
                    self.next()
                    args.append(("star", None))
                elif not self.at("punct", ")"):
                    if self.at_kw("distinct"):
                        self.next()
                    args.append(self.parse_expr())
                    while self.at("punct", ","):
                        self.next()
                        args.append(self.parse_expr())
                self.expect("punct", ")")
                return ("call", name.lower(), args)
            if self.at("punct", "."):
                self.next()
                if self.at("op", "*"):
                    self.next()
                    return ("star", name)
                col = self.ident()
                return ("col", name, col)
            return ("col", None, name)
        raise SQLError("unexpected token %r in expression" % (t,))


def parse(text):
    p = Parser(text)
    stmts = p.parse_script()
    if len(stmts) != 1:
        raise SQLError("expected one statement, got %d" % len(stmts))
    return stmts[0]


def parse_script(text):
    return Parser(text).parse_script()


# ---------------------------------------------------------- placeholders
def placeholders(stmt_or_expr):
    """Ordered list of (index, name, context) for every parameter.
    context = (column-expr, op, side) when the parameter is compared with a
    column, ('insert', i) for VALUES position i, ('set', col) for UPDATE."""
    out = []

    def expr(e, ctx=None):
        if e is None or not isinstance(e, tuple):
            return
        k = e[0]
        if k == "param":
            out.append((e[1], e[2], ctx))
        elif k == "cmp":
            l, r = e[2], e[3]
            expr(l, ("cmp", e[1], r, "left") if l[0] == "param" else None)
            expr(r, ("cmp", e[1], l, "right") if r[0] == "param" else None)
        elif k in ("and", "or"):
            for x in e[1]:
                expr(x)
        elif k == "not":
            expr(e[1])
        elif k == "in":
            if isinstance(e[2], Select):
                expr(e[1])
                sel(e[2])
            else:
                expr(e[1])
                for x in e[2]:
                    expr(x, ("in", e[1]) if x[0] == "param" else None)
        elif k in ("arith",):
            expr(e[2])
            expr(e[3])
        elif k == "call":
            for x in e[2]:
                expr(x)
        elif k == "subselect":
            sel(e[1])
        elif k == "isnull":
            expr(e[1])
        elif k == "exists":
            expr(e[1])

    def sel(s):
        for c, _a in s.cols:
            expr(c)
        refs = [(s.source, None)] + list(s.joins)
        for ref, on in refs:
            if ref is not None and ref[0] == "subquery":
                sel(ref[1])
            expr(on)
        expr(s.where)
        for e in s.group_by:
            expr(e)
        expr(s.having)
        for e, _d in s.order_by:
            expr(e)
        expr(s.limit)
        expr(s.offset)

    s = stmt_or_expr
    if isinstance(s, Select):
        sel(s)
    elif isinstance(s, Stmt):
        if s.verb == "INSERT":
            for i, v in enumerate(s.values):
                expr(v, ("insert", i))
            sub = getattr(s, "select", None)
            if sub is not None:
                refs = [(sub.source, None)] + list(sub.joins)
                for ref, on in refs:
                    if ref is not None and ref[0] == "subquery":
                        sel(ref[1])
                    expr(on)
                expr(sub.where)
        elif s.verb == "UPDATE":
            if isinstance(s.sets, list):
                for col, v in s.sets:
                    expr(v, ("set", col))
            expr(s.where)
        elif s.verb == "DELETE":
            expr(s.where)
    else:
        expr(s)
    out.sort(key=lambda x: x[0])
    return out


def show(e):
    """Readable rendering of an expression."""
    if e is None:
        return ""
    if isinstance(e, Select):
        return "(SELECT ...)"
    k = e[0]
    if k == "col":
        return (e[1] + "." if e[1] else "") + e[2]
    if k == "param":
        return "?%d" % e[1] if e[2] == "?" else ":%s" % e[2]
    if k == "hole":
        return "{%s}" % e[1]
    if k in ("num", "str"):
        return repr(e[1])
    if k == "cmp":
        return "%s %s %s" % (show(e[2]), e[1], show(e[3]))
    if k in ("and", "or"):
        return "(" + (" %s " % k.upper()).join(show(x) for x in e[1]) + ")"
    if k == "not":
        return "NOT " + show(e[1])
    if k == "in":
        rhs = e[2]
        return "%s IN (%s)" % (show(e[1]), "SELECT.." if isinstance(rhs, Select) else ",".join(show(x) for x in rhs))
    if k == "call":
        return "%s(%s)" % (e[1], ",".join(show(x) for x in e[2]))
    if k == "arith":
        return "(%s %s %s)" % (show(e[2]), e[1], show(e[3]))
    if k == "star":
        return "*"
    return str(e)


def conjuncts(e):
    if e is None:
        return []
    if e[0] == "and":
        out = []
        for x in e[1]:
            out.extend(conjuncts(x))
        return out
    return [e]


# ------------------------------------------------------------ schema + CQ
def schema_from_script(text):
    """{table: {'columns': [...], 'pk': [...], 'if_not_exists': bool}}"""
    out = {}
    for s in parse_script(text):
        if s.verb == "CREATE TABLE":
            out[s.table.lower()] = {
                "columns": [c[0].lower() for c in s.columns],
                "types": {c[0].lower(): c[1].lower() for c in s.columns},
                "pk": [c.lower() for c in s.pk],
                "if_not_exists": s.if_not_exists,
            }
    return out


class CQ:
    """Conjunctive query: atoms [(alias, table)], equality classes over terms,
    residual conditions, projection (list of terms / aggregate terms)."""

    def __init__(self):
        self.atoms = []
        self.eqs = []  # pairs of terms
        self.others = []  # normalised residual conditions (tuples with terms)
        self.proj = []
        self.distinct = False
        self.order = []

    def classes(self):
        parent = {}

        def find(x):
            parent.setdefault(x, x)
            while parent[x] != x:
                parent[x] = parent[parent[x]]
                x = parent[x]
            return x
        for a, b in self.eqs:
            ra, rb = find(a), find(b)
            if ra != rb:
                parent[ra] = rb
        groups = {}
        for x in list(parent):
            groups.setdefault(find(x), set()).add(x)
        return [frozenset(g) for g in groups.values() if len(g) > 1], find

    def canonical(self, rename=None):
        rename = rename or {}

        def rn(t):
            if isinstance(t, tuple) and t and t[0] == "col":
                return ("col", rename.get(t[1], t[1]), t[2])
            if isinstance(t, tuple):
                return tuple(rn(x) for x in t)
            return t
        cls, _ = self.classes()
        cls = frozenset(frozenset(rn(t) for t in c) for c in cls)
        atoms = tuple(sorted((rename.get(a, a), t) for a, t in self.atoms))
        # projection compared modulo the equality classes: map each term to its class
        rep = {}
        for c in cls:
            r = min(c, key=repr)
            for t in c:
                rep[t] = r

        def canon_term(t):
            t = rn(t)
            if t in rep:
                return rep[t]
            if isinstance(t, tuple) and t and t[0] in ("agg",):
                return ("agg", t[1], canon_term(t[2]))
            return t
        proj = tuple(canon_term(t) for t in self.proj)
        others = frozenset(tuple(canon_term(x) if isinstance(x, tuple) else x for x in o) for o in self.others)
        return (atoms, cls, others, proj)

    def describe(self):
        cls, _ = self.classes()
        parts = ["atoms=" + ",".join("%s:%s" % a for a in sorted(self.atoms))]
        parts.append("eq=" + "; ".join(sorted(" = ".join(sorted(_t(t) for t in c)) for c in cls)))
        if self.others:
            parts.append("other=" + "; ".join(sorted(" ".join(_t(x) if isinstance(x, tuple) else str(x) for x in o) for o in self.others)))
        parts.append("proj=" + ",".join(_t(t) for t in self.proj))
        if self.distinct:
            parts.append("DISTINCT")
        return " | ".join(parts)


def _t(t):
    if isinstance(t, tuple):
        if t[0] == "col":
            return "%s.%s" % (t[1], t[2])
        if t[0] == "param":
            return "$%s" % (t[1],)
        if t[0] == "const":
            return repr(t[1])
        if t[0] == "agg":
            return "%s(%s)" % (t[1], _t(t[2]))
        if t[0] == "hole":
            return "{%s}" % t[1]
    return str(t)


def to_cq(select, schema, param_names=None, _counter=None, _outer_scope=None):
    """Normalise a SELECT to a CQ.  IN-subselects, JOIN..ON and derived
    tables are inlined (set semantics).  param_names maps placeholder index ->
    symbolic name."""
    param_names = param_names or {}
    counter = _counter if _counter is not None else itertools.count()
    cq = CQ()
    cq.distinct = select.distinct
    scope = {}  # alias(lower) -> ('table', table) | ('derived', {colname: term})

    def add_ref(ref):
        if ref[0] == "table":
            table = ref[1].lower()
            alias = (ref[2] or ref[1]).lower()
            uniq = alias if alias not in [a for a, _ in cq.atoms] and _outer_scope is None else "%s#%d" % (alias, next(counter))
            if _outer_scope is not None:
                uniq = "%s#%d" % (alias, next(counter))
            cq.atoms.append((uniq, table))
            scope[alias] = ("table", table, uniq)
        else:
            sub = to_cq(ref[1], schema, param_names, counter, _outer_scope={})
            cq.atoms.extend(sub.atoms)
            cq.eqs.extend(sub.eqs)
            cq.others.extend(sub.others)
            cols = {}
            for (e, al), term in zip(ref[1].cols, sub.proj):
                name = al or (e[2] if e[0] == "col" else None)
                if name:
                    cols[name.lower()] = term
            scope[(ref[2] or "_sub%d" % next(counter)).lower()] = ("derived", cols, None)

    refs = [(select.source, None)] + list(select.joins)
    for ref, _on in refs:
        if ref is not None:
            add_ref(ref)

    def resolve_col(tbl, col):
        col = col.lower()
        if tbl is not None:
            s = scope.get(tbl.lower())
            if s is None:
                raise SQLError("unknown table/alias %s" % tbl)
            if s[0] == "table":
                return ("col", s[2], col)
            if col not in s[1]:
                raise SQLError("derived table has no column %s" % col)
            return s[1][col]
        cands = []
        for al, s in scope.items():
            if s[0] == "table":
                if col in schema.get(s[1], {}).get("columns", []) or col == "rowid":
                    cands.append(("col", s[2], col))
            elif col in s[1]:
                cands.append(s[1][col])
        if len(cands) == 1:
            return cands[0]
        if not cands:
            raise SQLError("cannot resolve column %s" % col)
        raise SQLError("ambiguous column %s" % col)

    def term(e):
        k = e[0]
        if k == "col":
            return resolve_col(e[1], e[2])
        if k == "param":
            return ("param", param_names.get(e[1], e[1] if e[2] == "?" else e[2]))
        if k == "num" or k == "str":
            return ("const", e[1])
        if k == "hole":
            return ("hole", e[1])
        if k == "call" and e[1] in ("min", "max", "count", "sum", "avg"):
            arg = term(e[2][0]) if e[2] and e[2][0][0] != "star" else ("const", "*")
            return ("agg", e[1], arg)
        if k == "arith":
            return ("arith", e[1], term(e[2]), term(e[3]))
        raise SQLError("unsupported term %r" % (e,))

    def cond(e):
        for c in conjuncts(e):
            if c[0] == "cmp" and c[1] == "=":
                cq.eqs.append((term(c[2]), term(c[3])))
            elif c[0] == "cmp":
                cq.others.append((c[1], term(c[2]), term(c[3])))
            elif c[0] == "in" and isinstance(c[2], Select):
                sub = to_cq(c[2], schema, param_names, counter, _outer_scope=scope)
                if len(sub.proj) != 1:
                    raise SQLError("IN subselect must project one column")
                cq.atoms.extend(sub.atoms)
                cq.eqs.extend(sub.eqs)
                cq.others.extend(sub.others)
                cq.eqs.append((term(c[1]), sub.proj[0]))
            elif c[0] == "in":
                cq.others.append(("in", term(c[1]), tuple(term(x) for x in c[2])))
            else:
                cq.others.append(("cond", show(c)))

    for ref, on in refs:
        cond(on)
    cond(select.where)
    for e, _al in select.cols:
        if e[0] == "star":
            cq.proj.append(("star", e[1]))
        else:
            cq.proj.append(term(e))
    for e, d in select.order_by:
        try:
            cq.order.append((term(e), d or "asc"))
        except SQLError:
            cq.order.append((("raw", show(e)), d or "asc"))
    return cq


def cq_equivalent(a, b):
    """True when the two CQs are equal up to a renaming of aliases."""
    ta = sorted(t for _, t in a.atoms)
    tb = sorted(t for _, t in b.atoms)
    if ta != tb:
        return False
    target = b.canonical()
    by_table_a, by_table_b = {}, {}
    for al, t in a.atoms:
        by_table_a.setdefault(t, []).append(al)
    for al, t in b.atoms:
        by_table_b.setdefault(t, []).append(al)
    tables = sorted(by_table_a)
    perms = [list(itertools.permutations(by_table_b[t])) for t in tables]
    for combo in itertools.product(*perms):
        rename = {}
        for t, perm in zip(tables, combo):
            for x, y in zip(by_table_a[t], perm):
                rename[x] = y
        if a.canonical(rename) == target:
            return True
    return False
