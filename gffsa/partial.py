"""Guarded partial operations: every constant-index subscript, fixed-arity
unpack and mapping read of a function must be justified by one of

  J1  base is the result of str.split(<sep>) (>= 1 element) / a non-empty
      display, and the index is 0 or -1
  J2  a dominating truthiness / len guard on the same base (and-chains,
      comprehension filters, `assert len(x) == n`, `if len(x) == n` for unpack)
  J3  an earlier return on falsiness of the base
  J4  a dominating store or membership test of the same key
  J5  key is a key of the folded constants.dialect (complete dialects)
  J6  an enclosing try that catches the exception

Slices never raise and are not obligations.
"""
import ast

from .cfg import cfg_of
from .model import norm, parents, enclosing
from .util import is_name, call_attr, const_str, assignments_to


class Site:
    def __init__(self, kind, node, base, key, func):
        self.kind, self.node, self.base, self.key, self.func = kind, node, base, key, func
        self.just = None


def _is_split_call(e):
    return isinstance(e, ast.Call) and call_attr(e) == "split" and e.args and not (isinstance(e.args[0], ast.Constant) and e.args[0].value is None)


def _nonempty_expr(e, func, depth=0):
    """Expression that evaluates to a sequence with at least one element."""
    if _is_split_call(e):
        return True
    if isinstance(e, (ast.Tuple, ast.List)) and len(e.elts) >= 1:
        return True
    if isinstance(e, ast.Name) and depth < 3:
        return _name_nonempty(e.id, func, depth + 1)
    return False


def _elements_nonempty(e, func, depth=0):
    """Expression that evaluates to a list whose ELEMENTS are non-empty sequences."""
    if isinstance(e, (ast.ListComp, ast.GeneratorExp)):
        return _nonempty_expr(e.elt, _CompScope(func, e), depth)
    if isinstance(e, ast.List) and not e.elts:
        return True  # filled by appends, checked by caller
    return False


class _CompScope:
    """func-like wrapper that lets names bound by a comprehension resolve."""

    def __init__(self, func, comp):
        self.func, self.comp = func, comp
        self.node = func.node


def _name_nonempty(name, func, depth=0):
    real = func.func if isinstance(func, _CompScope) else func
    # comprehension variable iterating a list with non-empty elements
    if isinstance(func, _CompScope):
        for g in func.comp.generators:
            if any(isinstance(x, ast.Name) and x.id == name for x in ast.walk(g.target)):
                return _iter_elements_nonempty(g.iter, real, depth)
    asg = assignments_to(real.node, name)
    if not asg:
        return False
    for a in asg:
        if isinstance(a, ast.Assign) and len(a.targets) == 1 and is_name(a.targets[0], name):
            if not _nonempty_expr(a.value, real, depth):
                return False
        elif isinstance(a, (ast.For, ast.comprehension)):
            if not _iter_elements_nonempty(a.iter, real, depth):
                return False
        else:
            return False
    return True


def _iter_elements_nonempty(it, func, depth):
    if isinstance(it, ast.Call) and is_name(it.func, "enumerate") and it.args:
        it = it.args[0]
    if isinstance(it, ast.Name):
        name = it.id
        asg = assignments_to(func.node, name)
        if not asg:
            return False
        for a in asg:
            if not (isinstance(a, ast.Assign) and len(a.targets) == 1 and is_name(a.targets[0], name)):
                return False
            if not _elements_nonempty(a.value, func, depth):
                return False
        # appended values
        for c in ast.walk(func.node):
            if isinstance(c, ast.Call) and call_attr(c) in ("append",) and is_name(c.func.value, name):
                if not (c.args and _nonempty_expr(c.args[0], func, depth)):
                    return False
            if isinstance(c, ast.Call) and call_attr(c) in ("extend", "insert") and is_name(c.func.value, name):
                return False
        return True
    return _elements_nonempty(it, func, depth)


def collect(func):
    sites = []
    for n in ast.walk(func.node):
        if isinstance(n, (ast.FunctionDef, ast.Lambda)) and n is not func.node:
            continue
        if isinstance(n, ast.Subscript) and isinstance(n.ctx, ast.Load) and not isinstance(n.slice, ast.Slice):
            inner = enclosing(n, (ast.FunctionDef, ast.Lambda))
            if inner is not func.node:
                continue
            k = n.slice
            if isinstance(k, ast.Constant) and isinstance(k.value, int) and not isinstance(k.value, bool):
                sites.append(Site("index", n, n.value, k.value, func))
            elif isinstance(k, ast.UnaryOp) and isinstance(k.op, ast.USub) and isinstance(k.operand, ast.Constant):
                sites.append(Site("index", n, n.value, -k.operand.value, func))
            else:
                sites.append(Site("key", n, n.value, k, func))
        elif isinstance(n, ast.Assign) and isinstance(n.targets[0], (ast.Tuple, ast.List)) and not isinstance(n.value, (ast.Tuple, ast.List, ast.Call)):
            inner = enclosing(n, (ast.FunctionDef, ast.Lambda))
            if inner is not func.node:
                continue
            sites.append(Site("unpack", n, n.value, len(n.targets[0].elts), func))
    return sites


def _truthy_guard(test, base_src, pol=True):
    """test (taken with polarity pol) implies `base` is non-empty."""
    s = norm(test)
    if pol:
        if s == base_src or s in ("len(%s) > 0" % base_src, "len(%s) >= 1" % base_src, "len(%s) != 0" % base_src, "%s != ''" % base_src):
            return True
        if isinstance(test, ast.Compare) and norm(test.left) == "len(%s)" % base_src and isinstance(test.ops[0], (ast.Eq, ast.GtE, ast.Gt)) and \
                isinstance(test.comparators[0], ast.Constant) and isinstance(test.comparators[0].value, int):
            c = test.comparators[0].value
            return c >= 1 if isinstance(test.ops[0], (ast.Eq, ast.GtE)) else c >= 0
        if isinstance(test, ast.BoolOp) and isinstance(test.op, ast.And):
            return any(_truthy_guard(v, base_src, True) for v in test.values)
    else:
        if s in ("not %s" % base_src, "len(%s) == 0" % base_src):
            return True
        if isinstance(test, ast.UnaryOp) and isinstance(test.op, ast.Not):
            return _truthy_guard(test.operand, base_src, True)
    return False


def _len_eq_guard(test, base_src, n):
    return isinstance(test, ast.Compare) and norm(test.left) == "len(%s)" % base_src and isinstance(test.ops[0], ast.Eq) and \
        isinstance(test.comparators[0], ast.Constant) and test.comparators[0].value == n


def justify(site, func, dialect_keys, cfg=None):
    cfg = cfg or cfg_of(func)
    node = site.node
    base_src = norm(site.base)
    # ---- J6 enclosing try
    want = "IndexError" if site.kind == "index" else "KeyError" if site.kind == "key" else "ValueError"
    child = node
    for p in parents(node):
        if p is func.node:
            break
        if isinstance(p, ast.Try) and any(child is s or any(child is x for x in ast.walk(s)) for s in p.body):
            for h in p.handlers:
                t = norm(h.type) if h.type is not None else "Exception"
                if want in t or t in ("Exception", "BaseException", "LookupError"):
                    return "J6 (except %s)" % t
        child = p
    if site.kind == "key":
        k = site.key
        ks = const_str(k)
        if ks is not None and base_src == "dialect":
            if ks in dialect_keys:
                return "J5 (dialect key)"
            return None
        # J4 dominating store / membership test / try-probe idiom
        key_src = norm(k)
        tn = cfg.node_for(node)
        for n in ast.walk(func.node):
            if isinstance(n, ast.Assign) and any(isinstance(t, ast.Subscript) and norm(t.value) == base_src and norm(t.slice) == key_src for t in n.targets):
                an = cfg.node_for(n)
                if an is not None and tn is not None and cfg.dominates(an.id, tn.id) and an.id != tn.id:
                    return "J4 (dominating store)"
            if isinstance(n, ast.If) and isinstance(n.test, ast.Compare) and len(n.test.ops) == 1 and isinstance(n.test.ops[0], (ast.In, ast.NotIn)) \
                    and norm(n.test.left) == key_src and norm(n.test.comparators[0]) == base_src:
                an = cfg.node_for(n)
                if an is None or tn is None or not cfg.dominates(an.id, tn.id):
                    continue
                inside_true = any(node is x for s in n.body for x in ast.walk(s))
                inside_false = any(node is x for s in n.orelse for x in ast.walk(s))
                present_branch = n.body if isinstance(n.test.ops[0], ast.In) else n.orelse
                absent_branch = n.orelse if isinstance(n.test.ops[0], ast.In) else n.body
                if (inside_true and isinstance(n.test.ops[0], ast.In)) or (inside_false and isinstance(n.test.ops[0], ast.NotIn)):
                    return "J4 (membership test)"
                stores = any(isinstance(x, ast.Assign) and any(isinstance(t, ast.Subscript) and norm(t.value) == base_src and norm(t.slice) == key_src
                                                               for t in x.targets) for s in absent_branch for x in ast.walk(s))
                if stores and not inside_true and not inside_false:
                    return "J4 (membership test, absent branch stores)"
            if isinstance(n, ast.Try):
                probe = any(isinstance(x, ast.Subscript) and norm(x.value) == base_src and norm(x.slice) == key_src for s in n.body for x in ast.walk(s))
                fix = any(h.type is not None and "KeyError" in norm(h.type) and any(
                    isinstance(x, ast.Assign) and any(isinstance(t, ast.Subscript) and norm(t.value) == base_src and norm(t.slice) == key_src for t in x.targets)
                    for s in h.body for x in ast.walk(s)) for h in n.handlers)
                if probe and fix and tn is not None:
                    # the try statement precedes and dominates: its first body statement dominates the use
                    fn = cfg.node_for(n.body[0])
                    if fn is not None and cfg.dominates(fn.id, tn.id) and node.lineno > n.end_lineno:
                        return "J4 (try-probe stores the key on KeyError)"
        # reads of an items()-loop variable's mapping are safe
        loop = enclosing(node, ast.For)
        while loop is not None:
            it_ = loop.iter
            while isinstance(it_, ast.Call) and isinstance(it_.func, ast.Name) and it_.func.id in ("list", "tuple", "sorted", "iter", "reversed") and len(it_.args) >= 1:
                it_ = it_.args[0]        # a snapshot / reordering of the same keys
            pairs = isinstance(it_, ast.Call) and call_attr(it_) == "items" and norm(it_.func.value) == base_src
            keys = (isinstance(it_, ast.Call) and call_attr(it_) == "keys" and norm(it_.func.value) == base_src) or norm(it_) == base_src
            if pairs or keys:
                tgt = loop.target.elts[0] if (pairs and isinstance(loop.target, ast.Tuple)) else loop.target
                if norm(tgt) == key_src:
                    return "J4 (key from iteration over the mapping)"
            loop = enclosing(loop, ast.For)
        if isinstance(site.base, ast.Dict):
            return None
        return None
    # ------------------------------------------------ index / unpack
    # J2: structural guards (if / and-chain / comprehension filter / ifexp)
    child = node
    for p in parents(node):
        if p is func.node:
            break
        if isinstance(p, ast.BoolOp) and isinstance(p.op, ast.And):
            idx = next((i for i, v in enumerate(p.values) if v is child or any(child is x for x in ast.walk(v))), None)
            if idx:
                for v in p.values[:idx]:
                    if site.kind == "index" and _truthy_guard(v, base_src, True):
                        return "J2 (and-chain guard `%s`)" % norm(v)
        if isinstance(p, ast.If):
            pol = any(child is s for s in p.body)
            neg = any(child is s for s in p.orelse)
            if pol or neg:
                if site.kind == "index" and _truthy_guard(p.test, base_src, pol):
                    return "J2 (guard `%s`)" % norm(p.test)
                if site.kind == "unpack" and pol and _len_eq_guard(p.test, base_src, site.key):
                    return "J2 (guard `%s`)" % norm(p.test)
        if isinstance(p, (ast.ListComp, ast.GeneratorExp, ast.SetComp)):
            for g in p.generators:
                tgt = norm(g.target)
                if tgt == base_src:
                    for c in g.ifs:
                        if _truthy_guard(c, base_src, True):
                            return "J2 (comprehension filter `%s`)" % norm(c)
                    if _iter_elements_nonempty(g.iter, func, 0) and site.kind == "index" and site.key in (0, -1):
                        return "J1 (element of a list of split results)"
        child = p
    # J3 / J2: dominating early return on falsiness or assert
    tn = cfg.node_for(node)
    for n in ast.walk(func.node):
        if isinstance(n, ast.If) and _truthy_guard(n.test, base_src, False) and n.body and isinstance(n.body[-1], (ast.Return, ast.Raise, ast.Continue)):
            an = cfg.node_for(n)
            if an is not None and tn is not None and cfg.dominates(an.id, tn.id) and not _reassigned_between(func, base_src, n, node, cfg):
                return "J3 (early exit on `%s`)" % norm(n.test)
        if isinstance(n, ast.Assert):
            an = cfg.node_for(n)
            if an is not None and tn is not None and cfg.dominates(an.id, tn.id):
                if site.kind == "index" and _truthy_guard(n.test, base_src, True):
                    return "J2 (assert `%s`)" % norm(n.test)
    # J1: base is a split result / non-empty display / name bound only to such
    if site.kind == "index" and site.key in (0, -1):
        if _nonempty_expr(site.base, func):
            return "J1 (split result / non-empty display)"
        if isinstance(site.base, ast.Name):
            loop = enclosing(node, ast.For)
            while loop is not None:
                if norm(loop.target) == base_src or (isinstance(loop.target, ast.Tuple) and any(norm(e) == base_src for e in loop.target.elts)):
                    if _iter_elements_nonempty(loop.iter, func, 0):
                        return "J1 (element of a list of split results)"
                loop = enclosing(loop, ast.For)
    return None


def _reassigned_between(func, base_src, a, b, cfg):
    """base re-bound on some path between statements a and b (the new value
    may be empty even though the old one was not)."""
    if not base_src.isidentifier():
        return False
    an, bn = cfg.node_for(a), cfg.node_for(b)
    for x in assignments_to(func.node, base_src):
        xn = cfg.node_for(x)
        if xn is None or xn.id in (an.id, bn.id):
            continue
        if xn.id in cfg.reachable(an.id) and bn.id in cfg.reachable(xn.id):
            return True
    return False
