"""Column <-> Python expression binding of SQL write/read sites, independent of
how the statement is spelled: positional or named placeholders, explicit or
implicit column lists (schema order), argument tuple / dict / dict(...) / a local
holding one of those, executemany over a comprehension or a list of appended
tuples."""
import ast

from . import sql as S
from .model import norm
from .util import is_name, const_str, call_attr, resolve_name, single_assignment, assignments_to, calls_in


class Unbound(Exception):
    pass


def _row_exprs(params, func):
    """The expression(s) standing for ONE row of arguments: returns
    ('pos', [exprs]) or ('named', {name: expr}) or raises Unbound.
    For executemany sources the row of the element is returned, together with
    the loop context in `ctxinfo` (list of (target, iter))."""
    p = resolve_name(params, func) if params is not None else None
    if p is None:
        return ("pos", []), []
    # wrappers
    while isinstance(p, ast.Call) and isinstance(p.func, ast.Name) and p.func.id in ("tuple", "list") and len(p.args) == 1:
        p = resolve_name(p.args[0], func)
    if isinstance(p, (ast.Tuple, ast.List)):
        return ("pos", list(p.elts)), []
    if isinstance(p, ast.Dict):
        return ("named", {const_str(k): v for k, v in zip(p.keys, p.values) if const_str(k) is not None}), []
    if isinstance(p, ast.Call) and is_name(p.func, "dict") and p.keywords and not p.args:
        return ("named", {k.arg: k.value for k in p.keywords if k.arg}), []
    if isinstance(p, ast.BinOp) and isinstance(p.op, ast.Add):
        l, _ = _row_exprs(p.left, func)
        r, _ = _row_exprs(p.right, func)
        if l[0] == "pos" and r[0] == "pos":
            return ("pos", l[1] + r[1]), []
    raise Unbound(norm(p))


def _many_rows(params, func):
    """Rows fed to executemany: list of (kind, row, loops) alternatives."""
    p = resolve_name(params, func) if params is not None else None
    while isinstance(p, ast.Call) and isinstance(p.func, ast.Name) and p.func.id in ("tuple", "list", "iter") and len(p.args) == 1:
        p = resolve_name(p.args[0], func)
    if isinstance(p, (ast.GeneratorExp, ast.ListComp)):
        row, _ = _row_exprs(p.elt, func)
        return [(row, [(g.target, g.iter) for g in p.generators])]
    if isinstance(p, (ast.List, ast.Tuple)):
        return [(_row_exprs(e, func)[0], []) for e in p.elts]
    if isinstance(p, ast.Call) and isinstance(p.func, ast.Name):
        # a generator function defined in this function: rows are what it yields
        f = func
        gens = []
        while f is not None:
            gens += f.nested.get(p.func.id, [])
            f = f.parent
        out = []
        for g in gens:
            for n in ast.walk(g.node):
                if isinstance(n, ast.Yield) and n.value is not None:
                    out.append((_row_exprs(n.value, g)[0], [("gen", g)]))
        if out:
            return out
    if isinstance(params, ast.Name):
        # a local list filled by append/extend of row displays
        out = []
        for c in calls_in(func.node):
            if call_attr(c) == "append" and is_name(c.func.value, params.id) and c.args:
                out.append((_row_exprs(c.args[0], func)[0], [("append", c)]))
        if out:
            return out
    raise Unbound(norm(params) if params is not None else "None")


def bound_rows(site, schema, func):
    """For an INSERT/UPDATE/DELETE site: list of {column or ('where', col, op): expr-or-sqlconst}
    (one dict per alternative row source)."""
    st = site.stmts[0]
    if site.method == "executemany":
        alts = _many_rows(site.params, func)
    else:
        row, loops = _row_exprs(site.params, func)
        alts = [(row, loops)]
    out = []
    for row, loops in alts:
        kind, vals = row
        phs = S.placeholders(st)
        bind = {}

        def arg_for(ph):
            idx, name, _c = ph
            if kind == "pos":
                if idx >= len(vals):
                    raise Unbound("placeholder %d has no argument" % idx)
                return vals[idx]
            if name == "?":
                raise Unbound("positional placeholder with named arguments")
            if name not in vals:
                raise Unbound("no argument named %s" % name)
            return vals[name]
        if st.verb == "INSERT":
            cols = [c.lower() for c in (st.columns or schema.get(st.table.lower(), {}).get("columns", []))]
            if len(cols) < len(st.values):
                raise Unbound("more values than columns")
            pi = 0
            for col, v in zip(cols, st.values):
                if v[0] == "param":
                    ph = [p for p in phs if p[0] == v[1]][0]
                    bind[col] = arg_for(ph)
                else:
                    bind[col] = ("sql", v)
        elif st.verb == "UPDATE" and isinstance(st.sets, list):
            for col, v in st.sets:
                if v[0] == "param":
                    ph = [p for p in phs if p[0] == v[1]][0]
                    bind[col.lower()] = arg_for(ph)
                else:
                    bind[col.lower()] = ("sql", v)
        for ph in phs:
            c = ph[2]
            if c and c[0] == "cmp" and c[2][0] == "col":
                bind[("where", c[2][2].lower(), c[1])] = arg_for(ph)
            elif c and c[0] == "in":
                bind[("where-in", S.show(c[1]))] = arg_for(ph)
        out.append((bind, loops))
    return out




def select_unpack(site, func):
    """[(selected column term, target name)] for `a, b = cursor.fetchone()` /
    `for a, b in cursor` following the site."""
    st = site.stmts[0]
    cols = []
    for e, alias in st.cols:
        if e[0] == "col":
            cols.append(e[2].lower())
        elif e[0] == "call":
            cols.append("%s(%s)" % (e[1], e[2][0][2].lower() if e[2] and e[2][0][0] == "col" else "*"))
        else:
            cols.append(S.show(e))
    recv = site.call.func.value
    rname = recv.id if isinstance(recv, ast.Name) else None
    best = None
    for n in ast.walk(func.node):
        tgt = None
        if isinstance(n, ast.Assign) and isinstance(n.targets[0], ast.Tuple) and isinstance(n.value, ast.Call) and \
                call_attr(n.value) == "fetchone" and isinstance(n.value.func.value, ast.Name) and n.value.func.value.id == rname:
            tgt = n.targets[0]
        elif isinstance(n, ast.For) and isinstance(n.target, ast.Tuple) and is_name(n.iter, rname):
            tgt = n.target
        if tgt is not None and n.lineno >= site.call.lineno and (best is None or n.lineno < best[0]):
            best = (n.lineno, tgt, n)
    if best is None:
        return None, None
    names = [getattr(e, "id", None) for e in best[1].elts]
    if len(names) != len(cols):
        return [], best[2]
    return list(zip(cols, names)), best[2]
