"""A small relational evaluator for the SQL subset gffutils uses (parsed by sql.py), so that the importers and the query
layer can be evaluated abstractly *against a database*: tables of concrete (or opaque, symbolic) values, primary keys
with the conflict clauses, joins, sub-selects, IN, DISTINCT, ORDER BY, MIN/MAX/COUNT.  It is a model of SQLite's
documented behaviour for these constructs -- the library side of the analysis, like the string methods the evaluator
knows; gffutils and sqlite3 themselves are never imported or run.

Values are Python ints / strs / None, or any other object (a Sym) which is stored and returned as is and compares equal
only to itself; an ordering or equality question between a symbolic value and something else is `SqlUnsupported`.
"""
from . import sql as S


class IntegrityError(Exception):
    pass


class SqlUnsupported(Exception):
    pass


class OperationalError(Exception):
    pass


class Row(tuple):
    """A result row: positional like a tuple, by column name like sqlite3.Row."""

    def __new__(cls, values, cols):
        r = tuple.__new__(cls, values)
        r.cols = list(cols)
        return r

    def keys(self):
        return list(self.cols)

    def get(self, name):
        low = [c.lower() for c in self.cols]
        if name.lower() not in low:
            raise IndexError("No item with that key")
        return self[low.index(name.lower())]

    def as_dict(self):
        return dict(zip(self.cols, self))

    def __deepcopy__(self, memo):
        import copy
        return Row([copy.deepcopy(v, memo) for v in self], self.cols)


class Table:
    def __init__(self, name, cols, pk):
        self.name, self.cols, self.pk = name, cols, pk       # cols: [(name, affinity)]
        self.rows = []                                          # dicts, with 'rowid'
        self.next_rowid = 1

    def colnames(self):
        return [c for c, _a in self.cols]


AGGREGATES = {"min", "max", "count", "sum", "total", "avg", "group_concat"}


def _concrete(v):
    return v is None or isinstance(v, (int, float, str, bytes))


def _affinity(decl):
    d = (decl or "").lower()
    if "int" in d:
        return "int"
    if "char" in d or "text" in d or "clob" in d:
        return "text"
    if "real" in d or "floa" in d or "doub" in d:
        return "real"
    return "blob" if not d or "blob" in d else "numeric"


def _apply_affinity(v, aff):
    if isinstance(v, bool):
        v = int(v)
    if aff == "text" and isinstance(v, (int, float)):
        return str(v)
    if aff in ("int", "numeric", "real") and isinstance(v, str):
        try:
            return int(v)
        except ValueError:
            try:
                f = float(v)
                return int(f) if aff == "int" and f == int(f) else f
            except ValueError:
                return v
    return v


def _rank(v):
    # SQLite's cross-type order: NULL < numbers < text < blob
    if v is None:
        return 0
    if isinstance(v, (int, float)):
        return 1
    if isinstance(v, str):
        return 2
    return 3


def compare(a, b):
    """-1 / 0 / 1, or None when either side is NULL."""
    if a is None or b is None:
        return None
    if not (_concrete(a) and _concrete(b)):
        if a is b or (getattr(a, "name", object()) == getattr(b, "name", None)):
            return 0
        raise SqlUnsupported("comparison of symbolic values %r and %r" % (a, b))
    ra, rb = _rank(a), _rank(b)
    if ra != rb:
        return -1 if ra < rb else 1
    return -1 if a < b else (1 if a > b else 0)


def sort_key(v):
    class K:
        __slots__ = ("v",)

        def __init__(self, v):
            self.v = v

        def __lt__(self, o):
            if self.v is None:
                return o.v is not None
            if o.v is None:
                return False
            return compare(self.v, o.v) < 0

        def __eq__(self, o):
            if self.v is None or o.v is None:
                return self.v is None and o.v is None
            return compare(self.v, o.v) == 0
    return K(v)


class MiniDB:
    def __init__(self):
        self.tables = {}
        self.indexes = set()
        self.log = []          # (verb, table, detail)
        self.analyzed = False

    # ---------------------------------------------------------------- entry points
    def script(self, text):
        for st in S.parse_script(text):
            self.run(st, ())

    def execute(self, text, params=()):
        stmts = S.parse_script(text)
        if len(stmts) != 1:
            raise OperationalError("You can only execute one statement at a time.")
        return self.run(stmts[0], params)

    def run(self, st, params):
        v = st.verb
        if v == "SELECT":
            cols, rows = self.select(st, params, [])
            return cols, rows
        if v == "INSERT":
            return self.insert(st, params)
        if v == "UPDATE":
            return self.update(st, params)
        if v == "DELETE":
            return self.delete(st, params)
        if v == "CREATE TABLE":
            if st.table.lower() in self.tables:
                if st.if_not_exists:
                    return None
                raise OperationalError("table %s already exists" % st.table)
            self.tables[st.table.lower()] = Table(st.table, [(c, _affinity(t)) for c, t in st.columns], [p.lower() for p in st.pk])
            self.log.append(("CREATE TABLE", st.table.lower(), None))
            return None
        if v == "CREATE INDEX":
            if st.name.lower() in self.indexes:
                if st.if_not_exists:
                    return None
                raise OperationalError("index %s already exists" % st.name)
            self.table(st.table)
            self.indexes.add(st.name.lower())
            self.log.append(("CREATE INDEX", st.table.lower(), st.name))
            return None
        if v.startswith("DROP"):
            nm = str(st.name).lower()
            if v == "DROP INDEX":
                if nm not in self.indexes and not st.if_exists:
                    raise OperationalError("no such index: %s" % st.name)
                self.indexes.discard(nm)
            elif v == "DROP TABLE":
                if nm not in self.tables and not st.if_exists:
                    raise OperationalError("no such table: %s" % st.name)
                self.tables.pop(nm, None)
            self.log.append((v, nm, None))
            return None
        if v == "ANALYZE":
            self.analyzed = True
            self.log.append(("ANALYZE", st.table, None))
            return None
        if v == "PRAGMA":
            self.log.append(("PRAGMA", st.name, st.value))
            return None
        raise SqlUnsupported("statement %s" % v)

    def table(self, name):
        if name.lower() == "sqlite_master":
            t = Table("sqlite_master", [("type", "text"), ("name", "text"), ("tbl_name", "text"), ("rootpage", "int"), ("sql", "text")], [])
            for tn, tb in self.tables.items():
                t.rows.append({"type": "table", "name": tb.name, "tbl_name": tb.name, "rootpage": 0, "rowid": len(t.rows) + 1,
                               "sql": "CREATE TABLE %s (%s)" % (tb.name, ", ".join(c for c, _a in tb.cols))})
            for ix in sorted(self.indexes):
                t.rows.append({"type": "index", "name": ix, "tbl_name": None, "rootpage": 0, "sql": None, "rowid": len(t.rows) + 1})
            if self.analyzed:
                t.rows.append({"type": "table", "name": "sqlite_stat1", "tbl_name": "sqlite_stat1", "rootpage": 0, "sql": "CREATE TABLE sqlite_stat1(tbl,idx,stat)", "rowid": len(t.rows) + 1})
            return t
        t = self.tables.get(name.lower())
        if t is None:
            raise OperationalError("no such table: %s" % name)
        return t

    # ---------------------------------------------------------------- expressions
    def param(self, e, params):
        _tag, n, name = e
        if name == "?":
            if isinstance(params, dict):
                raise OperationalError("positional placeholder with a mapping of parameters")
            try:
                return params[n]
            except (IndexError, TypeError):
                raise OperationalError("Incorrect number of bindings supplied")
        if isinstance(params, dict):
            if name not in params:
                raise OperationalError("You did not supply a value for binding :%s" % name)
            return params[name]
        try:
            return params[n]
        except (IndexError, TypeError):
            raise OperationalError("Incorrect number of bindings supplied")

    def lookup(self, qual, col, scope):
        c = col.lower()
        hits = []
        for alias, names, row in scope:
            if qual is not None and qual.lower() not in names:
                continue
            if c in row:
                hits.append(row[c])
            elif c in ("rowid", "_rowid_", "oid") and "rowid" in row:
                hits.append(row["rowid"])
        if not hits:
            raise OperationalError("no such column: %s%s" % (qual + "." if qual else "", col))
        # innermost scope first: a correlated sub-select sees its own tables before the outer ones
        return hits[0]

    def ev(self, e, scope, params, agg=None):
        k = e[0]
        if k == "num" or k == "str":
            return e[1]
        if k == "null":
            return None
        if k == "param":
            return self.param(e, params)
        if k == "col":
            return self.lookup(e[1], e[2], scope)
        if k == "cmp":
            a, b = self.ev(e[2], scope, params, agg), self.ev(e[3], scope, params, agg)
            a, b = self._coerce_pair(e[2], a, e[3], b, scope)
            c = compare(a, b)
            if c is None:
                return None
            return {"=": c == 0, "!=": c != 0, "<": c < 0, "<=": c <= 0, ">": c > 0, ">=": c >= 0}[e[1]]
        if k == "and":
            out = True
            for x in e[1]:
                v = self.truth(self.ev(x, scope, params, agg))
                if v is False:
                    return False
                if v is None:
                    out = None
            return out
        if k == "or":
            out = False
            for x in e[1]:
                v = self.truth(self.ev(x, scope, params, agg))
                if v is True:
                    return True
                if v is None:
                    out = None
            return out
        if k == "not":
            v = self.truth(self.ev(e[1], scope, params, agg))
            return None if v is None else (not v)
        if k == "isnull":
            v = self.ev(e[1], scope, params, agg)
            return (v is not None) if e[2] else (v is None)
        if k == "in":
            left = self.ev(e[1], scope, params, agg)
            if isinstance(e[2], S.Select):
                _c, rows = self.select(e[2], params, scope)
                vals = [r[0] for r in rows]
            else:
                vals = [self.ev(x, scope, params, agg) for x in e[2]]
            if left is None:
                return None
            saw_null = False
            for v in vals:
                c = compare(left, v)
                if c is None:
                    saw_null = True
                elif c == 0:
                    return True
            return None if saw_null else False
        if k == "exists":
            _c, rows = self.select(e[1][1], params, scope)
            return bool(rows)
        if k == "subselect":
            _c, rows = self.select(e[1], params, scope)
            return rows[0][0] if rows else None
        if k == "arith":
            a, b = self.ev(e[2], scope, params, agg), self.ev(e[3], scope, params, agg)
            if a is None or b is None:
                return None
            if e[1] == "||":
                return "%s%s" % (a, b)
            if not (isinstance(a, (int, float)) and isinstance(b, (int, float))):
                raise SqlUnsupported("arithmetic on %r, %r" % (a, b))
            if e[1] == "+":
                return a + b
            if e[1] == "-":
                return a - b
            if e[1] == "*":
                return a * b
            if e[1] == "/":
                if b == 0:
                    return None
                return a // b if isinstance(a, int) and isinstance(b, int) else a / b
        if k == "call":
            name = e[1]
            if name in AGGREGATES:
                if agg is None:
                    raise OperationalError("misuse of aggregate function %s()" % name)
                return agg(e)
            args = [self.ev(x, scope, params, agg) for x in e[2]]
            if name == "lower" and len(args) == 1:
                return args[0].lower() if isinstance(args[0], str) else args[0]
            if name == "upper" and len(args) == 1:
                return args[0].upper() if isinstance(args[0], str) else args[0]
            if name == "length" and len(args) == 1:
                return None if args[0] is None else len(str(args[0]))
            if name == "abs" and len(args) == 1:
                return None if args[0] is None else abs(args[0])
            if name in ("ifnull", "coalesce"):
                for a in args:
                    if a is not None:
                        return a
                return None
            raise SqlUnsupported("SQL function %s()" % name)
        raise SqlUnsupported("SQL expression %r" % (e,))

    def _col_affinity(self, e, scope):
        if e[0] != "col":
            return None
        c = e[2].lower()
        for alias, names, row in scope:
            if e[1] is not None and e[1].lower() not in names:
                continue
            aff = row.get(("__aff__", c))
            if aff is not None or c in row:
                return aff
        return None

    def _coerce_pair(self, ea, a, eb, b, scope):
        """SQLite applies the column's affinity to the other operand before comparing (start >= '100')."""
        fa, fb = self._col_affinity(ea, scope), self._col_affinity(eb, scope)
        if fa in ("int", "numeric", "real") and fb is None:
            b = _apply_affinity(b, fa) if _concrete(b) else b
        elif fb in ("int", "numeric", "real") and fa is None:
            a = _apply_affinity(a, fb) if _concrete(a) else a
        elif fa == "text" and fb is None and isinstance(b, (int, float)):
            b = str(b)
        elif fb == "text" and fa is None and isinstance(a, (int, float)):
            a = str(a)
        return a, b

    @staticmethod
    def truth(v):
        if v is None:
            return None
        if isinstance(v, bool):
            return v
        if isinstance(v, (int, float)):
            return v != 0
        if isinstance(v, str):
            try:
                return float(v) != 0
            except ValueError:
                return False
        raise SqlUnsupported("truth value of %r" % (v,))

    # ---------------------------------------------------------------- SELECT
    def _source_rows(self, ref, params, outer):
        """[(alias, names, rowdict)] for one FROM item."""
        if ref[0] == "table":
            t = self.table(ref[1])
            names = {ref[1].lower()} if ref[2] is None else {ref[2].lower()}
            out = []
            for r in t.rows:
                d = dict(r)
                for c, aff in t.cols:
                    d[("__aff__", c.lower())] = aff
                out.append((ref[2] or ref[1], names, d))
            return out, [c for c in t.colnames()]
        cols, rows = self.select(ref[1], params, outer)
        names = {ref[2].lower()} if ref[2] else set()
        out = []
        for r in rows:
            out.append((ref[2], names, {c.lower(): v for c, v in zip(cols, r)}))
        return out, list(cols)

    def select(self, s, params, outer):
        # FROM / JOIN: nested loops in source order (SQLite's result order without ORDER BY is unspecified; rowid order
        # of the outermost table is what the reference implementation produces for these statements)
        combos = [[]]
        all_cols = []
        if s.source is not None:
            rows, cols = self._source_rows(s.source, params, outer)
            combos = [[r] for r in rows]
            all_cols.append((s.source, cols))
            for ref, on in s.joins:
                rows, cols = self._source_rows(ref, params, outer)
                all_cols.append((ref, cols))
                nxt = []
                for c in combos:
                    for r in rows:
                        sc = [r] + c[::-1] + list(outer)
                        if on is None or self.truth(self.ev(on, sc, params)) is True:
                            nxt.append(c + [r])
                combos = nxt
        scopes = []
        for c in combos:
            sc = c[::-1] + list(outer)
            # unqualified names resolve left to right over the FROM items
            sc = list(c) + list(outer)
            if s.where is None or self.truth(self.ev(s.where, sc, params)) is True:
                scopes.append(sc)
        # result columns
        names, exprs = [], []
        for e, alias in s.cols:
            if e[0] == "star":
                for ref, cols in all_cols:
                    q = (ref[2] or (ref[1] if ref[0] == "table" else None))
                    if e[1] is not None and (q or "").lower() != e[1].lower():
                        continue
                    for c in cols:
                        names.append(c)
                        exprs.append(("col", q, c))
            else:
                names.append(alias or (e[2] if e[0] == "col" else S.show(e)))
                exprs.append(e)
        has_agg = any(x[0] == "call" and x[1] in AGGREGATES for e in exprs for x in S.iter_exprs(e))
        group_by = getattr(s, "group_by", None) or []
        if getattr(s, "having", None) is not None:
            raise SqlUnsupported("HAVING")
        out = []

        def aggregate(scopes):
            """One result row for a group of source rows."""
            pick = {"row": None}

            def agg(e):
                name = e[1]
                if name == "count":
                    if not e[2] or e[2][0][0] == "star":
                        return len(scopes)
                    return sum(1 for sc in scopes if self.ev(e[2][0], sc, params) is not None)
                vals = [(self.ev(e[2][0], sc, params), sc) for sc in scopes]
                vals = [(v, sc) for v, sc in vals if v is not None]
                if not vals:
                    return None if name != "total" else 0.0
                if name in ("min", "max"):
                    best = vals[0]
                    for v, sc in vals[1:]:
                        c = compare(v, best[0])
                        if (c < 0 and name == "min") or (c > 0 and name == "max"):
                            best = (v, sc)
                    if pick["row"] is None:
                        pick["row"] = best[1]
                    return best[0]
                if name in ("sum", "total"):
                    return sum(v for v, _ in vals)
                if name == "avg":
                    return sum(v for v, _ in vals) / len(vals)
                if name == "group_concat":
                    return ",".join(str(v) for v, _ in vals)
                raise SqlUnsupported("aggregate %s" % name)
            # bare columns: from the row on which the (first) min/max was reached, else the first matching row
            aggvals = {}
            for i, e in enumerate(exprs):
                if any(x[0] == "call" and x[1] in AGGREGATES for x in S.iter_exprs(e)):
                    aggvals[i] = self.ev(e, scopes[0] if scopes else list(outer), params, agg)
            bare_scope = pick["row"] or (scopes[0] if scopes else None)
            row = []
            for i, e in enumerate(exprs):
                if i in aggvals:
                    row.append(aggvals[i])
                else:
                    row.append(self.ev(e, bare_scope, params) if bare_scope is not None else None)
            return (row, bare_scope or list(outer))
        if group_by:
            # one row per distinct key, in key order (what SQLite's sorter produces for GROUP BY without ORDER BY)
            groups = []
            for sc in scopes:
                key = [self.ev(e, sc, params) for e in group_by]
                for k2, members in groups:
                    if all((a is None and b is None) or (a is not None and b is not None and compare(a, b) == 0) for a, b in zip(key, k2)):
                        members.append(sc)
                        break
                else:
                    groups.append((key, [sc]))
            for i in range(len(group_by) - 1, -1, -1):
                groups.sort(key=lambda g: sort_key(g[0][i]))
            out = [aggregate(members) for _k, members in groups]
        elif has_agg:
            out = [aggregate(scopes)]
        else:
            for sc in scopes:
                out.append(([self.ev(e, sc, params) for e in exprs], sc))
        if s.distinct:
            seen, ded = [], []
            for row, sc in out:
                if not any(len(row) == len(r2) and all((a is None and b is None) or (a is not None and b is not None and compare(a, b) == 0) for a, b in zip(row, r2)) for r2 in seen):
                    seen.append(row)
                    ded.append((row, sc))
            out = ded
        if s.order_by:
            def keyf(item):
                row, sc = item
                ks = []
                for e, d in s.order_by:
                    if e[0] == "col" and e[1] is None and e[2].lower() in [n.lower() for n in names]:
                        v = row[[n.lower() for n in names].index(e[2].lower())]
                    elif e[0] == "num" and isinstance(e[1], int) and 1 <= e[1] <= len(row):
                        v = row[e[1] - 1]
                    else:
                        v = self.ev(e, sc, params)
                    ks.append((sort_key(v), d))
                return ks
            keyed = [(keyf(it), it) for it in out]
            # stable multi-key sort, last key first
            for i in range(len(s.order_by) - 1, -1, -1):
                desc = s.order_by[i][1] == "desc"
                keyed.sort(key=lambda kv: kv[0][i][0], reverse=desc)
            out = [it for _k, it in keyed]
        lim = getattr(s, "limit", None)
        off = getattr(s, "offset", None)
        if off is not None:
            n = self.ev(off, list(outer), params)
            if isinstance(n, int) and n > 0:
                out = out[n:]
        if lim is not None:
            n = self.ev(lim, list(outer), params)
            if isinstance(n, int) and n >= 0:
                out = out[:n]
        return names, [Row(r, names) for r, _sc in out]

    # ---------------------------------------------------------------- writes
    def _pk_conflicts(self, t, newrow, skip=None):
        if not t.pk:
            return []
        key = [newrow.get(p) for p in t.pk]
        if any(k is None for k in key):
            return []
        out = []
        for r in t.rows:
            if r is skip:
                continue
            same = True
            for p, k in zip(t.pk, key):
                c = compare(r.get(p), k) if r.get(p) is not None else None
                if c != 0:
                    same = False
                    break
            if same:
                out.append(r)
        return out

    def insert(self, st, params):
        t = self.table(st.table)
        cols = [c.lower() for c in (st.columns or t.colnames())]
        known = [c.lower() for c in t.colnames()]
        for c in cols:
            if c not in known:
                raise OperationalError("table %s has no column named %s" % (t.name, c))
        if getattr(st, "select", None) is not None:
            _n, rows = self.select(st.select, params, [])
            value_rows = [list(r) for r in rows]
        else:
            value_rows = [[self.ev(v, [], params) for v in st.values]]
        n = 0
        for vals in value_rows:
            if len(vals) != len(cols):
                raise OperationalError("table %s has %d columns but %d values were supplied" % (t.name, len(cols), len(vals)))
            row = {c: None for c in known}
            for c, v in zip(cols, vals):
                aff = dict((a.lower(), b) for a, b in t.cols)[c]
                row[c] = _apply_affinity(v, aff) if _concrete(v) else v
            clash = self._pk_conflicts(t, row)
            if clash:
                orc = (st.or_clause or "").lower()
                if orc == "ignore":
                    self.log.append(("INSERT-IGNORED", t.name.lower(), dict(row)))
                    continue
                if orc == "replace":
                    for r in clash:
                        t.rows.remove(r)
                else:
                    raise IntegrityError("UNIQUE constraint failed: %s" % ", ".join("%s.%s" % (t.name, p) for p in t.pk))
            row["rowid"] = t.next_rowid
            t.next_rowid += 1
            t.rows.append(row)
            self.log.append(("INSERT", t.name.lower(), dict(row)))
            n += 1
        return n

    def _scope_of(self, t, r):
        d = dict(r)
        for c, aff in t.cols:
            d[("__aff__", c.lower())] = aff
        return [(t.name, {t.name.lower()}, d)]

    def update(self, st, params):
        t = self.table(st.table)
        known = [c.lower() for c in t.colnames()]
        n = 0
        for r in list(t.rows):
            sc = self._scope_of(t, r)
            if st.where is not None and self.truth(self.ev(st.where, sc, params)) is not True:
                continue
            new = dict(r)
            for col, e in st.sets:
                c = col.lower()
                if c not in known:
                    raise OperationalError("no such column: %s" % col)
                v = self.ev(e, sc, params)
                aff = dict((a.lower(), b) for a, b in t.cols)[c]
                new[c] = _apply_affinity(v, aff) if _concrete(v) else v
            if self._pk_conflicts(t, new, skip=r):
                raise IntegrityError("UNIQUE constraint failed: %s" % ", ".join("%s.%s" % (t.name, p) for p in t.pk))
            r.update(new)
            self.log.append(("UPDATE", t.name.lower(), dict(r)))
            n += 1
        return n

    def delete(self, st, params):
        t = self.table(st.table)
        n = 0
        for r in list(t.rows):
            if st.where is None or self.truth(self.ev(st.where, self._scope_of(t, r), params)) is True:
                t.rows.remove(r)
                self.log.append(("DELETE", t.name.lower(), dict(r)))
                n += 1
        return n

    # ---------------------------------------------------------------- inspection
    def rows(self, table, cols=None, order=None):
        t = self.table(table)
        cols = cols or t.colnames()
        rs = sorted(t.rows, key=lambda r: r["rowid"]) if order is None else t.rows
        return [tuple(r.get(c.lower()) for c in cols) for r in rs]
