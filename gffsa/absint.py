"""E4 -- partitioned forward dataflow ("static string analysis") for the query
builders.

An abstract interpreter for the Python subset that helpers.make_query,
FeatureDB._relation/children/parents/region/all_features/features_of_type
use.  Concrete values are native Python objects; abstract ones are Sym
(opaque input), AStr (string with holes), Opaque (unknown collection/object),
RepList (comprehension over an opaque collection), Star (opaque collection
spliced into an argument list), ACond (undecided comparison).

Branches that the partition does not decide fork the trace: the function is
re-run from the start with a longer prefix of decisions (no joins, no state
copying).  Anything outside the subset raises Unsupported -> exit 2 naming
the node (fail closed).
"""
import ast
import copy

from . import AnalysisError
from .model import norm, walk_own


# The classes gffutils is made of: constructing one of them is an event the checks reason about (opaque object, keyword
# arguments recorded) unless a check asks for real construction.  Any other package class is a helper object (a query
# builder, a spool, a tally ...) and is constructed by evaluating its __init__.
DOMAIN_CLASSES = {
    "feature.Feature", "attributes.Attributes", "interface.FeatureDB", "create._DBCreator", "create._GFFDBCreator", "create._GTFDBCreator",
    "iterators.Directive", "iterators._BaseIterator", "iterators._FileIterator", "iterators._UrlIterator", "iterators._FeatureIterator",
    "parser.Quoter", "gffwriter.GFFWriter",
}


class Unsupported(AnalysisError):
    pass


class Sym:
    """Opaque input value.  kind: str|int|any|Feature|bool ; truthy: True,
    False or None (unknown)."""

    def __init__(self, name, kind="any", truthy=True, attrs=None):
        self.name, self.kind, self.truthy = name, kind, truthy
        self.attrs = attrs or {}

    def __repr__(self):
        return "‹%s›" % self.name

    def __eq__(self, other):
        return isinstance(other, Sym) and other.name == self.name

    def __hash__(self):
        return hash(("Sym", self.name))


class Opaque:
    """Unknown object or collection (cursor, bins set, ...)."""

    def __init__(self, name, kind="obj", origin=None):
        self.name, self.kind, self.origin = name, kind, origin
        self.attrs = {}

    def __repr__(self):
        return "‹%s:%s›" % (self.kind, self.name)


class Star:
    """An opaque collection spliced into a list (args += _bins)."""

    def __init__(self, coll):
        self.coll = coll

    def __repr__(self):
        return "*%r" % (self.coll,)


class RepList:
    """[template for _ in <opaque>]"""

    def __init__(self, template, over):
        self.template, self.over = template, over

    def __repr__(self):
        return "[%r for _ in %r]" % (self.template, self.over)


class Rep:
    """Hole: `sep`.join(template for each element of `over`); template None
    means str(element)."""

    def __init__(self, over, template=None, sep=","):
        self.over, self.template, self.sep = over, template, sep

    def __repr__(self):
        return "Rep(%r,%r,%r)" % (self.over, self.template, self.sep)


class AStr:
    """String made of literal segments and holes (Sym | Rep)."""

    def __init__(self, parts=()):
        self.parts = []
        for p in parts:
            self._push(p)

    def _push(self, p):
        if isinstance(p, AStr):
            for q in p.parts:
                self._push(q)
        elif isinstance(p, str):
            if p == "":
                return
            if self.parts and isinstance(self.parts[-1], str):
                self.parts[-1] += p
            else:
                self.parts.append(p)
        elif isinstance(p, (int, float)) and not isinstance(p, bool):
            self._push(str(p))
        elif isinstance(p, (Sym, Rep)):
            self.parts.append(p)
        elif p is None:
            self._push("None")
        elif isinstance(p, bool):
            self._push(str(p))
        else:
            raise Unsupported("cannot embed %r in a string" % (p,))

    def literal(self):
        return "".join(p for p in self.parts if isinstance(p, str))

    def is_concrete(self):
        return all(isinstance(p, str) for p in self.parts)

    def simplify(self):
        if self.is_concrete():
            return self.literal()
        return self

    def map_literals(self, fn):
        return AStr([fn(p) if isinstance(p, str) else p for p in self.parts]).simplify()

    def render(self):
        out = []
        for p in self.parts:
            if isinstance(p, str):
                out.append(p)
            elif isinstance(p, Sym):
                out.append("⟦%s⟧" % p.name)
            else:
                tmpl = p.template if p.template is not None else ""
                if isinstance(tmpl, AStr):
                    tmpl = tmpl.render()
                out.append("⟦*%s|%s|%s⟧" % (p.over.name, p.sep, tmpl))
        return "".join(out)

    def __repr__(self):
        return "AStr(%s)" % self.render()

    def truthy(self):
        return bool(self.parts)


class ACond:
    def __init__(self, op, left, right, node=None):
        self.op, self.left, self.right, self.node = op, left, right, node

    def __repr__(self):
        return "(%r %s %r)" % (self.left, self.op, self.right)


class PosVal:
    """A character position inside a string with holes: `off` characters into literal part `part` (hole lengths are
    unknown, so positions are relative to a literal part).  Results of find()/index(); usable in slices of the same
    string and in sign tests."""

    def __init__(self, owner, part, off):
        self.owner, self.part, self.off = owner, part, off

    def __repr__(self):
        return "<pos %d+%d>" % (self.part, self.off)


class StreamVal:
    """A one-shot iterator over a finite list of (symbolic) items: consumption is state, exactly as for a Python
    generator, so `peek and put back` code can be judged on what is left in it."""

    def __init__(self, items, name="stream"):
        self.items, self.pos, self.name = list(items), 0, name

    def __iter__(self):
        return self

    def __next__(self):
        if self.pos >= len(self.items):
            raise StopIteration
        self.pos += 1
        return self.items[self.pos - 1]

    def __repr__(self):
        return "<stream %s at %d/%d>" % (self.name, self.pos, len(self.items))

    def __deepcopy__(self, memo):
        c = StreamVal(self.items, self.name)
        c.pos = self.pos
        if hasattr(self, "is_generator"):
            c.is_generator = self.is_generator
        return c


class HostIter:
    """A lazy iterator derived from streams (enumerate, chain, islice, a generator being run): consumed item by item."""

    def __init__(self, it, name="iter"):
        self.it, self.name = it, name

    def __iter__(self):
        return self

    def __next__(self):
        return next(self.it)

    def __repr__(self):
        return "<lazy %s>" % self.name


class CounterVal(dict):
    """collections.Counter"""


class SuperVal:
    """super(C, obj): method calls resolve in the classes after C in obj's method resolution order."""

    def __init__(self, cls, obj):
        self.cls, self.obj = cls, obj

    def ai_call(self, interp, attr, pos, kw, node):
        mro = interp.proj.mro(self.cls)
        for k in mro[1:]:
            m = k.methods.get(attr)
            if m is not None:
                if m.qual in interp.summaries:
                    return interp.summaries[m.qual](interp, pos, kw, node)
                return interp.call_func(m, pos, kw, self_obj=self.obj, node=node)
        if attr == "__init__":
            return None          # object.__init__
        raise Unsupported("super().%s not found" % attr)


class LibFn:
    """A callable produced by a modelled library function (operator.itemgetter(1), functools.partial(f, x), a namedtuple
    type): calling it runs `fn(interp, pos, kw, node)`."""

    def __init__(self, name, fn):
        self.name, self.fn = name, fn

    def __repr__(self):
        return "<%s>" % self.name

    def __deepcopy__(self, memo):
        return self

    def ai_invoke(self, interp, pos, kw, node):
        return self.fn(interp, pos, kw, node)

    def ai_getattr(self, interp, attr):
        extra = self.__dict__.get("attrs", {})
        if attr in extra:
            return extra[attr]
        return NotImplemented

    def ai_call(self, interp, attr, pos, kw, node):
        extra = self.__dict__.get("methods", {})
        if attr in extra:
            return extra[attr](interp, pos, kw, node)
        raise Unsupported("method %s of %r" % (attr, self))


class NamedTuple(tuple):
    """An instance of a collections.namedtuple type: a tuple whose items are also reachable by field name."""

    def __new__(cls, values, fields, typename):
        t = tuple.__new__(cls, values)
        t.nt_fields, t.nt_name = tuple(fields), typename
        return t

    def __deepcopy__(self, memo):
        import copy as _copy
        return NamedTuple([_copy.deepcopy(v, memo) for v in self], self.nt_fields, self.nt_name)

    def ai_getattr(self, interp, attr):
        if attr in self.nt_fields:
            return self[self.nt_fields.index(attr)]
        if attr == "_fields":
            return self.nt_fields
        return NotImplemented

    def ai_call(self, interp, attr, pos, kw, node):
        if attr == "_replace":
            vals = list(self)
            for k, v in kw.items():
                vals[self.nt_fields.index(k)] = v
            return NamedTuple(vals, self.nt_fields, self.nt_name)
        if attr == "_asdict":
            return dict(zip(self.nt_fields, self))
        if attr in ("index", "count"):
            return getattr(tuple(self), attr)(*pos)
        raise Unsupported("namedtuple method %s" % attr)


class MatchVal:
    """A match object of the re module on a concrete subject."""

    def __init__(self, m):
        self.m = m

    def __deepcopy__(self, memo):
        return self

    def ai_call(self, interp, attr, pos, kw, node):
        if attr in ("group", "groups", "groupdict", "start", "end", "span", "expand"):
            try:
                return getattr(self.m, attr)(*pos)
            except (IndexError, TypeError) as e:
                raise RaiseEx(type(e).__name__, str(e), node)
        raise Unsupported("match method %s" % attr)

    def ai_getattr(self, interp, attr):
        if attr in ("string", "pos", "endpos", "lastindex", "lastgroup"):
            return getattr(self.m, attr)
        return NotImplemented


class _CmExit:
    """Leaving the block of a @contextmanager generator: its body runs on to the end."""

    def __init__(self, gen):
        self.gen = gen

    def ai_call(self, interp, attr, pos, kw, node):
        if attr == "__exit__" and not self.gen.done:
            try:
                next(self.gen)
            except StopIteration:
                return None
            raise RaiseEx("RuntimeError", "generator didn't stop", node)
        return None


class SuppressVal:
    """contextlib.suppress(*exceptions)"""

    def __init__(self, names):
        self.names = names

    def matches(self, exc):
        short = exc.split(".")[-1]
        return any(n in ("Exception", "BaseException") or n.split(".")[-1] == short for n in self.names)

    def __deepcopy__(self, memo):
        return self

    def ai_call(self, interp, attr, pos, kw, node):
        return None


class _GenKilled(BaseException):
    pass


class LazyGen(HostIter):
    """A generator of the code under evaluation, run lazily: its body executes in a thread of its own that is handed the
    baton only inside next() -- one item at a time, exactly as Python interleaves a generator with its consumer (partial
    consumption, side effects between items, `finally` at close)."""

    def __init__(self, interp, func, env):
        import threading
        self.interp, self.func, self.env = interp, func, env
        self.name = "generator %s" % func.qual
        self.it = self
        self.thread = None
        self.done = False
        self.killed = False
        self.box = None
        self.saved_depth = 0
        self.to_gen = threading.Semaphore(0)
        self.to_consumer = threading.Semaphore(0)
        self.is_generator = True

    def __deepcopy__(self, memo):
        return self

    def __iter__(self):
        return self

    def __repr__(self):
        return "<%s>" % self.name

    def __next__(self):
        import threading
        if self.done:
            raise StopIteration
        I = self.interp
        consumer_depth = I.depth
        I._lazy_stack.append(self)
        if self.thread is None:
            I.depth = consumer_depth + 1
            self.thread = threading.Thread(target=self._run, daemon=True)
            I._lazy_all.append(self)
            self.thread.start()
        else:
            I.depth = self.saved_depth
            self.to_gen.release()
        self.to_consumer.acquire()
        I._lazy_stack.pop()
        self.saved_depth = I.depth
        I.depth = consumer_depth
        kind = self.box[0]
        if kind == "item":
            return self.box[1]
        self.done = True
        if kind == "error":
            raise self.box[1]
        raise StopIteration

    def _run(self):
        I = self.interp
        try:
            I.exec_block(self.func.node.body, self.env)
            self.box = ("done",)
        except ReturnEx:
            self.box = ("done",)
        except _GenKilled:
            self.box = ("done",)
        except BaseException as e:          # RaiseEx / Unsupported / internal errors: re-raised in the consumer
            self.box = ("error", e)
        self.to_consumer.release()

    def deliver(self, v):
        """Called on the generator's thread at a `yield`: hand the item over and wait for the next request."""
        self.box = ("item", v)
        self.to_consumer.release()
        self.to_gen.acquire()
        if self.killed:
            raise _GenKilled()

    def close(self):
        """generator.close(): the body is unwound from its yield (finally blocks run)."""
        if self.thread is not None and not self.done:
            self.killed = True
            I = self.interp
            consumer_depth = I.depth
            I._lazy_stack.append(self)
            I.depth = self.saved_depth
            self.to_gen.release()
            self.to_consumer.acquire()
            I._lazy_stack.pop()
            I.depth = consumer_depth
        self.done = True

    def ai_call(self, interp, attr, pos, kw, node):
        if attr == "close":
            self.close()
            return None
        if attr in ("__next__", "send") and not [x for x in pos if x is not None]:
            try:
                return next(self)
            except StopIteration:
                raise RaiseEx("StopIteration", "", node)
        if attr == "__iter__":
            return self
        raise Unsupported("generator method %s" % attr)


class SymMatch:
    """A match on a string with holes: group texts are strings with the same holes."""

    def __init__(self, m, holes):
        self.m, self.holes = m, holes

    def __deepcopy__(self, memo):
        return self

    def _back(self, text):
        if text is None:
            return None
        parts, buf = [], ""
        for ch in text:
            k = ord(ch) - 0xE000
            if 0 <= k < len(self.holes):
                if buf:
                    parts.append(buf)
                    buf = ""
                parts.append(self.holes[k])
            else:
                buf += ch
        if buf:
            parts.append(buf)
        if len(parts) == 1 and not isinstance(parts[0], str):
            return parts[0]
        return AStr(parts).simplify() if parts else ""

    def ai_call(self, interp, attr, pos, kw, node):
        if attr == "groups":
            return tuple(self._back(g) for g in self.m.groups(*pos))
        if attr == "group":
            r = self.m.group(*pos)
            return tuple(self._back(g) for g in r) if isinstance(r, tuple) else self._back(r)
        if attr == "groupdict":
            return {k: self._back(v) for k, v in self.m.groupdict().items()}
        raise Unsupported("match method %s on a string with holes" % attr)


class GenList(list):
    """The items a generator expression will produce (evaluated eagerly): a list to every consumer, and next() takes
    items off its front."""


class SetVal(list):
    """A set, kept as a duplicate-free list in insertion order (iteration order of a real set is unspecified:
    consumers that depend on it should sort)."""

    def add_(self, x):
        # concrete hashable members are looked up in an index (sets of thousands of bin numbers); the index is rebuilt
        # when the list was changed behind its back (copy, remove)
        idx = self.__dict__.get("_idx")
        if idx is None or self.__dict__.get("_n") != len(self):
            idx = {(type(y), y) for y in self if type(y) in (int, str, bool, float)}
            self._idx = idx
        if type(x) in (int, str, bool, float):
            if (type(x), x) in idx:
                self._n = len(self)
                return
            idx.add((type(x), x))
            self.append(x)
            self._n = len(self)
            return
        if not any(x is y or (type(x) is type(y) and x == y) for y in self):
            self.append(x)
        self._n = len(self)


def _setval(items):
    out = SetVal()
    for x in items:
        out.add_(x)
    return out


class Callback:
    """A caller-supplied callable with a known abstract result."""

    def __init__(self, name, result, fn=None):
        self.name, self.result, self.fn = name, result, fn

    def __repr__(self):
        return "<callback %s>" % self.name


class LambdaVal:
    def __init__(self, node, env):
        self.node, self.env = node, env


class FuncVal:
    def __init__(self, func):
        self.func = func
        self.closure = None

    # a module-level function is one object however often its name is evaluated
    def __eq__(self, other):
        if self is other:
            return True
        return isinstance(other, FuncVal) and self.func is other.func and self.closure is None and other.closure is None and getattr(self.func, "parent", None) is None

    def __ne__(self, other):
        return not self.__eq__(other)

    def __hash__(self):
        return hash(id(self.func))


class Builtin:
    def __init__(self, name):
        self.name = name

    def __repr__(self):
        return "<builtin %s>" % self.name


class TypeVal:
    def __init__(self, name):
        self.name = name


class ModVal:
    def __init__(self, name, ext=False):
        # ext: a standard-library module that shares its name with a module of the package (import inspect)
        if name.startswith("stdlib:"):
            name, ext = name[len("stdlib:"):], True
        self.name, self.ext = name, ext


class ReturnEx(Exception):
    def __init__(self, value):
        self.value = value


class RaiseEx(Exception):
    def __init__(self, exc, msg, node):
        self.exc, self.msg, self.node = exc, msg, node


class BreakEx(Exception):
    pass


class ContinueEx(Exception):
    pass


class Trace:
    def __init__(self):
        self.decisions = []  # (description, outcome, node)
        self.events = []  # (kind, payload..., node)
        self.result = None  # ('return', v) | ('raise', exc, msg) | ('end', None)
        self.partition = None

    def executes(self):
        return [e for e in self.events if e[0] == "execute"]

    def conds(self):
        return [(d[0], d[1]) for d in self.decisions if isinstance(d[0], ACond)]


def as_astr(v):
    if isinstance(v, AStr):
        return v
    if isinstance(v, str):
        return AStr([v])
    if isinstance(v, Sym):
        return AStr([v])
    if isinstance(v, (int, float)):
        return AStr([str(v)])
    raise Unsupported("not a string value: %r" % (v,))


def is_strlike(v):
    return isinstance(v, (str, AStr)) or (isinstance(v, Sym) and v.kind == "str")


class Interp:
    MAX_DEPTH = 10
    MAX_TRACES = 4000

    def __init__(self, ctx, summaries=None, overrides=None):
        self.ctx = ctx
        self.proj = ctx.proj
        self.folder = ctx.folder
        self.summaries = summaries or {}
        self.overrides = overrides or {}  # ("module", "name") -> value
        self._mod_objs = {}
        self._gen_stack = []
        self.empty_loops = False   # loops over unknown collections also take the zero-iteration path
        self._len_source = {}
        self.ext_summaries = {}   # "urllib.parse.unquote" -> fn(interp, pos, kw, node)
        self.hole_free_of = ""    # characters the symbolic holes are assumed not to contain
        self._mod_busy = set()
        import urllib.parse as _up0
        self.ext_values = {"urllib.parse.uses_netloc": list(_up0.uses_netloc)}          # {dotted name of a value of an external module: its model}
        self.lazy_generators = False   # generators of the evaluated code run lazily (threads with a baton) instead of being collected
        self._lazy_stack = []
        self._lazy_all = []
        self.keep_generators = False   # scenario mode: a generator returned by an evaluated call stays alive for the check to consume
        self.holes_containing = {}    # {hole-name prefix: text the hole is known to contain}
        self.vfs = None           # scenario mode: {path name: MemFile content}; open()/unlink act on it
        self.construct_real = set()   # package classes whose constructor is evaluated (their __init__ run on a fresh object)
        self.construct_helpers = True # ...and every package class that is not one of the domain classes below (helper objects)
        self.trace = None
        self.choices = []
        self.pending = []
        self.ptr = 0
        self.depth = 0

    # ------------------------------------------------------------- driver
    def run(self, func, args, self_obj=None, copy_args=True, copy_self=False):
        """All traces of func(**args) under every undecided branch.  copy_args=False hands the very argument objects to
        the code (to observe stores through them); only meaningful when the evaluation does not fork."""
        traces = []
        work = [[]]
        overrides0 = dict(self.overrides)
        while work:
            prefix = work.pop()
            self.overrides = dict(overrides0)
            self.choices = prefix
            self.ptr = 0
            self.pending = []
            self.trace = Trace()
            self.depth = 0
            try:
                # copy_self: arguments and receiver are copied together (shared parts stay shared): no store leaks between paths
                if copy_args and copy_self:
                    a_, me_ = copy.deepcopy((dict(args), self_obj))
                else:
                    a_, me_ = (copy.deepcopy(dict(args)) if copy_args else dict(args)), self_obj
                self.trace.self_obj = me_
                v = self.call_func(func, [], a_, self_obj=me_, node=func.node)
                self.trace.result = ("return", v)
            except RaiseEx as e:
                self.trace.result = ("raise", e.exc, e.msg)
            if not self.keep_generators:
                for g_ in list(self._lazy_all):
                    try:
                        g_.close()
                    except BaseException:
                        pass
                self._lazy_all = []
            self._lazy_stack = []
            traces.append(self.trace)
            work.extend(self.pending)
            if len(traces) > self.MAX_TRACES:
                raise Unsupported("more than %d traces for %s" % (self.MAX_TRACES, func.qual))
        return traces

    def apply(self, fn, pos, kw=None):
        """Value of calling an abstract callable (a function value, a closure returned by a factory, a lambda) on the given
        arguments; the evaluation must not fork."""
        self.choices, self.ptr, self.pending = [], 0, []
        self.trace = Trace()
        self.depth = 0
        try:
            v = self.call(fn, list(pos), dict(kw or {}), ast.Constant(value=None, lineno=0, col_offset=0), {})
        except RaiseEx as e:
            return ("raise", e.exc)
        if self.pending:
            raise Unsupported("evaluation forks on %r" % (self.trace.decisions[-1][0],))
        return ("return", v)

    def decide(self, value, node):
        t = self.truth(value)
        if t is not None:
            return t
        if self.ptr < len(self.choices):
            out = self.choices[self.ptr]
        else:
            out = True
            self.pending.append(self.choices[:self.ptr] + [False])
            self.choices = self.choices[:self.ptr] + [True]
        self.ptr += 1
        self.trace.decisions.append((value, out, node))
        return out

    def truth(self, v):
        if isinstance(v, Sym):
            return v.truthy
        if isinstance(v, AStr):
            return v.truthy()
        if isinstance(v, (ACond,)):
            return None
        if isinstance(v, Opaque):
            return None if v.kind in ("set", "list", "iter", "maybe-row", "dict", "bool?") else True
        if isinstance(v, (RepList, Star)):
            return None
        if isinstance(v, (FuncVal, Builtin, TypeVal, ModVal, Callback, LambdaVal)):
            return True
        return bool(v)

    # -------------------------------------------------------------- calls
    def call_func(self, func, pos, kw, self_obj=None, node=None, closure=None):
        memo_key = None
        for d_ in func.node.decorator_list:
            dn_ = norm(d_.func if isinstance(d_, ast.Call) else d_)
            if dn_.split(".")[-1] in ("lru_cache", "cache"):
                # a memoised function hands the very same object to every caller with equal arguments -- for the life
                # of the process (here: of this evaluator)
                try:
                    memo_key = (func.qual, repr(pos), repr(sorted(kw.items())))
                except Exception:
                    memo_key = None
                memo = self.__dict__.setdefault("_memo", {})
                if memo_key in memo:
                    return memo[memo_key]
        if memo_key is not None:
            v_ = self._call_func(func, pos, kw, self_obj, node, closure)
            self._memo[memo_key] = v_
            return v_
        return self._call_func(func, pos, kw, self_obj, node, closure)

    def _call_func(self, func, pos, kw, self_obj=None, node=None, closure=None):
        if self.depth >= self.MAX_DEPTH:
            raise Unsupported("inlining deeper than %d at %s" % (self.MAX_DEPTH, func.qual))
        self.ctx.touch(func)
        env = {}
        a = func.node.args
        params = [x.arg for x in a.posonlyargs + a.args]
        if func.cls is not None and params and params[0] == "self":
            env["self"] = self_obj if self_obj is not None else Opaque("self", "obj")
            params = params[1:]
        elif func.cls is not None and params and params[0] == "cls" and any(
                (isinstance(d, ast.Name) and d.id == "classmethod") for d in func.node.decorator_list):
            # the class object: class-level constants resolve through it as they do through an instance
            env["cls"] = self_obj if isinstance(self_obj, TypeVal) else Opaque("cls", "obj")
            params = params[1:]
        pos = list(pos)
        for p, v in zip(params, pos):
            env[p] = v
        if len(pos) > len(params):
            if a.vararg:
                env[a.vararg.arg] = tuple(pos[len(params):])
            else:
                raise Unsupported("too many positional args for %s" % func.qual)
        extra_kw = {}
        allnames = set(params) | {x.arg for x in a.kwonlyargs}
        for k, v in kw.items():
            if k in allnames:
                if k in env:
                    raise RaiseEx("TypeError", "multiple values for %s" % k, node)
                env[k] = v
            elif a.vararg and k == a.vararg.arg and isinstance(v, (list, tuple)) and self.depth == 0:
                env[k] = tuple(v)       # harness convention: the star-args of the entry point, by name
            elif a.kwarg:
                extra_kw[k] = v
            else:
                raise RaiseEx("TypeError", "%s() got an unexpected keyword argument %r" % (func.name, k), node)
        if a.vararg and a.vararg.arg not in env:
            env[a.vararg.arg] = ()
        if a.kwarg:
            env[a.kwarg.arg] = extra_kw
        defaults = func.param_defaults()
        for p in list(params) + [x.arg for x in a.kwonlyargs]:
            if p not in env:
                d = defaults.get(p)
                if d is None:
                    raise RaiseEx("TypeError", "missing argument %s for %s" % (p, func.qual), node)
                env[p] = self.eval(d, {"__func__": func, "__module__": func.module.name})
        env["__func__"] = func
        env["__module__"] = func.module.name
        if closure:
            for k_, v_ in closure.items():
                env.setdefault(k_, v_)
        is_gen = any(isinstance(n_, (ast.Yield, ast.YieldFrom)) for n_ in walk_own(func.node))
        if is_gen and self.lazy_generators and (self.depth > 0 or self.keep_generators):
            return LazyGen(self, func, env)
        collect = is_gen and self.depth > 0
        if collect:
            self._gen_stack.append([])
        elif self.depth == 0 or not is_gen:
            pass
        self.depth += 1
        try:
            self.exec_block(func.node.body, env)
            return self._gen_stack[-1] if collect else None
        except ReturnEx as r:
            return self._gen_stack[-1] if collect else r.value
        finally:
            self.depth -= 1
            if collect:
                self._collected = self._gen_stack.pop()

    # --------------------------------------------------------- statements
    def exec_block(self, stmts, env):
        for st in stmts:
            self.exec_stmt(st, env)

    def exec_stmt(self, st, env):
        if isinstance(st, ast.Expr):
            if isinstance(st.value, ast.Constant):
                return
            if isinstance(st.value, (ast.Yield, ast.YieldFrom)):
                v = self.eval(st.value.value, env) if st.value.value is not None else None
                vals = [v]
                if isinstance(st.value, ast.YieldFrom):
                    import threading as _th0
                    lazy_here = bool(self._lazy_stack) and _th0.current_thread() is self._lazy_stack[-1].thread
                    if self._object_iter(v, st) is not None:
                        v = self._object_iter(v, st, run=True)
                    if isinstance(v, (StreamVal, HostIter)) and lazy_here:
                        vals = []          # delivered item by item below
                    elif isinstance(v, (list, tuple, StreamVal, HostIter)):
                        vals = list(v)
                    elif isinstance(v, dict):
                        vals = list(v)
                    elif v is None:
                        vals = []
                import threading as _th
                if self._lazy_stack and _th.current_thread() is self._lazy_stack[-1].thread:
                    g_ = self._lazy_stack[-1]
                    for v_ in (vals if not isinstance(st.value, ast.YieldFrom) or not isinstance(v, (StreamVal, HostIter)) else v):
                        g_.deliver(v_)
                elif self._gen_stack:
                    # a generator called from the code under evaluation: its items are collected for the caller
                    self._gen_stack[-1].extend(vals)
                else:
                    for v_ in vals:
                        self.trace.events.append(("yield", v_, st))
                return
            self.eval(st.value, env)
            return
        if isinstance(st, ast.Assign):
            v = self.eval(st.value, env)
            for t in st.targets:
                self.assign(t, v, env)
            return
        if isinstance(st, ast.AugAssign):
            cur = self.eval(_load(st.target), env)
            rhs = self.eval(st.value, env)
            if isinstance(st.op, ast.Add) and isinstance(cur, list):
                # list += iterable mutates in place
                self.list_extend(cur, rhs)
                return
            v = self.binop(st.op, cur, rhs, st)
            self.assign(st.target, v, env)
            return
        if isinstance(st, ast.If):
            c = self.eval(st.test, env)
            if self.decide(c, st):
                self.exec_block(st.body, env)
            else:
                self.exec_block(st.orelse, env)
            return
        if isinstance(st, ast.For):
            it = self.eval(st.iter, env)
            if isinstance(it, (list, tuple)):
                items = list(it)
                if any(isinstance(x, Star) for x in items):
                    raise Unsupported("for over a list with an opaque splice")
            elif isinstance(it, dict):
                items = list(it.keys())
            elif isinstance(it, (StreamVal, HostIter)):
                items = it      # consumed lazily, one item per pass (a break leaves the rest in place)
            elif self._object_iter(it, st) is not None:
                items = self._object_iter(it, st, run=True)
            elif isinstance(it, (Opaque, RepList)):
                self.trace.events.append(("loop-opaque", it, st))
                items = [Opaque("%s[]" % getattr(it, "name", "rep"), "obj")]
                if self.empty_loops and isinstance(it, Opaque) and not self.decide(ACond("nonempty", it, None, st), st):
                    items = []
            elif isinstance(it, Sym):
                self.trace.events.append(("loop-opaque", it, st))
                items = [Sym(it.name + "[]", "any", None)]
            else:
                raise Unsupported("for over %r at line %s" % (it, st.lineno))
            broke = False
            for x in items:
                self.assign(st.target, x, env)
                try:
                    self.exec_block(st.body, env)
                except BreakEx:
                    broke = True
                    break
                except ContinueEx:
                    continue
            if not broke:
                self.exec_block(st.orelse, env)
            return
        if isinstance(st, ast.While):
            n_iter = n_forked = 0
            broke = False
            while True:
                n_dec = len(self.trace.decisions)
                if not self.decide(self.eval(st.test, env), st):
                    break
                n_iter += 1
                n_forked += len(self.trace.decisions) > n_dec          # the test was undecided: a fork
                if n_forked > 64 or n_iter > 200000:
                    raise Unsupported("while loop at line %s does not terminate within %d abstract iterations" % (st.lineno, 64 if n_forked > 64 else 200000))
                try:
                    self.exec_block(st.body, env)
                except BreakEx:
                    broke = True
                    break
                except ContinueEx:
                    continue
            if not broke:
                self.exec_block(st.orelse, env)
            return
        if isinstance(st, ast.Return):
            raise ReturnEx(self.eval(st.value, env) if st.value is not None else None)
        if isinstance(st, ast.Raise):
            name, msg = "Exception", ""
            if st.exc is None and env.get("__handling__") is not None:
                raise env["__handling__"]
            if st.exc is not None:
                e = st.exc
                if isinstance(e, ast.Call):
                    name = norm(e.func)
                    if e.args:
                        try:
                            m = self.eval(e.args[0], env)
                            msg = m.render() if isinstance(m, AStr) else str(m)
                        except Unsupported:
                            msg = norm(e.args[0])
                else:
                    name = norm(e)
            raise RaiseEx(name, msg, st)
        if isinstance(st, ast.Pass):
            return
        if isinstance(st, ast.Break):
            raise BreakEx()
        if isinstance(st, ast.Continue):
            raise ContinueEx()
        if isinstance(st, (ast.Import, ast.ImportFrom)):
            for al in st.names:
                local = al.asname or al.name.split(".")[0]
                full = (st.module + "." if isinstance(st, ast.ImportFrom) and st.module else "") + al.name
                full = self.proj._canon_mod(full)
                if full in self.proj.funcs:
                    env[local] = FuncVal(self.proj.funcs[full])
                elif full in self.proj.classes:
                    env[local] = TypeVal(full)
                else:
                    env[local] = ModVal(full)
            return
        if isinstance(st, ast.FunctionDef):
            f = getattr(st, "_func", None)
            fv = FuncVal(f) if f else Opaque(st.name, "obj")
            if f:
                fv.closure = env
            env[st.name] = fv
            return
        if isinstance(st, ast.Try):
            # builders have no try; model: body only, handlers on RaiseEx by name
            try:
                try:
                    self.exec_block(st.body, env)
                except RaiseEx as e:
                    for h in st.handlers:
                        if h.type is None or e.exc.split(".")[-1] in norm(h.type) or norm(h.type) in ("Exception", "BaseException"):
                            if h.name:
                                env[h.name] = Opaque(e.exc, "exc")
                            saved_ = env.get("__handling__")
                            env["__handling__"] = e
                            try:
                                self.exec_block(h.body, env)
                            finally:
                                env["__handling__"] = saved_
                            break
                    else:
                        raise
                else:
                    self.exec_block(st.orelse, env)
            finally:
                if st.finalbody:
                    self.exec_block(st.finalbody, env)
            return
        if isinstance(st, ast.With):
            # context managers are transparent: `as` binds what the expression evaluates to (files, cursors, streams)
            hosts = []
            for item in st.items:
                v = self.eval(item.context_expr, env)
                if isinstance(v, (LazyGen, GenList)) and self._is_contextmanager(item.context_expr, env):
                    # @contextlib.contextmanager: the value of the with-statement is what the generator yields first; the rest of
                    # its body runs when the block is left
                    cm = v
                    if isinstance(cm, LazyGen):
                        try:
                            v = next(cm)
                        except StopIteration:
                            raise RaiseEx("RuntimeError", "generator didn't yield", st)
                        hosts.append(_CmExit(cm))
                    else:
                        v = cm[0] if cm else None
                if hasattr(v, "ai_call"):
                    hosts.append(v)
                if item.optional_vars is not None:
                    self.assign(item.optional_vars, v, env)
                self.trace.events.append(("with", v, st))
            try:
                self.exec_block(st.body, env)
            except RaiseEx as e_:
                # contextlib.suppress(...): the named exceptions end the block quietly
                if not any(isinstance(h, SuppressVal) and h.matches(e_.exc) for h in hosts):
                    raise
            finally:
                for h in reversed(hosts):
                    h.ai_call(self, "__exit__", [], {}, st)
            return
        if isinstance(st, ast.Assert):
            return
        if isinstance(st, ast.Delete):
            for t in st.targets:
                if isinstance(t, ast.Subscript) and isinstance(t.slice, ast.Slice):
                    base = self.eval(t.value, env)
                    lo = self.eval(t.slice.lower, env) if t.slice.lower else None
                    hi = self.eval(t.slice.upper, env) if t.slice.upper else None
                    if isinstance(base, list) and all(x is None or isinstance(x, int) for x in (lo, hi)):
                        del base[lo:hi]
                    elif isinstance(base, (Opaque, Sym)):
                        self.trace.events.append(("delitem", base, (lo, hi), st))
                    else:
                        raise Unsupported("slice deletion on %r" % (base,))
                elif isinstance(t, ast.Subscript):
                    base = self.eval(t.value, env)
                    key = self.eval(t.slice, env)
                    if isinstance(base, dict) and key in base:
                        del base[key]
                    elif isinstance(base, list) and isinstance(key, int):
                        try:
                            del base[key]
                        except IndexError:
                            raise RaiseEx("IndexError", "list assignment index out of range", st)
                elif isinstance(t, ast.Name):
                    env.pop(t.id, None)
            return
        raise Unsupported("statement %s at line %s" % (type(st).__name__, st.lineno))

    def assign(self, target, v, env):
        if isinstance(target, ast.Name):
            env[target.id] = v
        elif isinstance(target, (ast.Tuple, ast.List)):
            stars = [i for i, t in enumerate(target.elts) if isinstance(t, ast.Starred)]
            if stars and isinstance(v, (list, tuple)) and not any(isinstance(x, Star) for x in v):
                i = stars[0]
                after = len(target.elts) - i - 1
                if len(stars) > 1:
                    raise Unsupported("two starred targets")
                if len(v) < len(target.elts) - 1:
                    raise RaiseEx("ValueError", "not enough values to unpack", target)
                for t, x in zip(target.elts[:i], v[:i]):
                    self.assign(t, x, env)
                self.assign(target.elts[i].value, list(v[i:len(v) - after]), env)
                for t, x in zip(target.elts[i + 1:], v[len(v) - after:] if after else []):
                    self.assign(t, x, env)
                return
            if isinstance(v, (list, tuple)):
                if any(isinstance(x, Star) for x in v):
                    raise Unsupported("unpack of spliced list")
                if len(v) != len(target.elts):
                    raise RaiseEx("ValueError", "unpack %d values into %d targets" % (len(v), len(target.elts)), target)
                for t, x in zip(target.elts, v):
                    self.assign(t, x, env)
            elif isinstance(v, (Opaque, Sym)):
                for i, t in enumerate(target.elts):
                    self.assign(t, Sym("%s[%d]" % (v.name, i), "any", None), env)
            elif v is None or isinstance(v, (int, float, bool)):
                raise RaiseEx("TypeError", "cannot unpack non-iterable %s object" % type(v).__name__, target)
            else:
                raise Unsupported("unpack of %r" % (v,))
        elif isinstance(target, ast.Subscript) and isinstance(target.slice, ast.Slice):
            base = self.eval(target.value, env)
            lo = self.eval(target.slice.lower, env) if target.slice.lower else None
            hi = self.eval(target.slice.upper, env) if target.slice.upper else None
            if target.slice.step is not None or not all(x is None or (isinstance(x, int) and not isinstance(x, bool)) for x in (lo, hi)):
                raise Unsupported("slice store with abstract bounds")
            if isinstance(base, list) and isinstance(v, (list, tuple, StreamVal, HostIter)):
                base[lo:hi] = list(v)         # in place: every alias of the list sees it
                self.trace.events.append(("setitem", base, (lo, hi), v, target))
            elif isinstance(base, (Opaque, Sym)):
                if lo is None and hi is None and isinstance(v, (list, tuple)) and not v:
                    self.trace.events.append(("delitem", base, (lo, hi), target))      # x[:] = [] empties it, like del x[:]
                else:
                    self.trace.events.append(("setitem", base, (lo, hi), v, target))
            else:
                raise Unsupported("slice store on %r" % (base,))
        elif isinstance(target, ast.Subscript):
            base = self.eval(target.value, env)
            key = self.eval(target.slice, env)
            if isinstance(base, (dict, list)):
                base[key] = v
                self.trace.events.append(("setitem", base, key, v, target))
            elif isinstance(base, Opaque) and base.attrs and self._class_method(base.kind, "__setitem__") is not None:
                self.call_func(self._class_method(base.kind, "__setitem__"), [key, v], {}, self_obj=base, node=target)
            elif self._dictlike(base) is not None and _concrete_key(key):
                self._dictlike(base)[key] = v
                self.trace.events.append(("setitem", base, key, v, target))
            elif isinstance(base, (Opaque, Sym)):
                self.trace.events.append(("setitem", base, key, v, target))
            else:
                raise Unsupported("subscript store on %r" % (base,))
        elif isinstance(target, ast.Attribute):
            base = self.eval(target.value, env)
            if hasattr(base, "ai_setattr"):
                base.ai_setattr(self, target.attr, v)
            elif isinstance(base, (Opaque, Sym)):
                base.attrs[target.attr] = v
                self.trace.events.append(("setattr", base, target.attr, v, target))
            elif isinstance(base, ModVal) and base.name in self.proj.modules and not base.ext:
                # a module-level switch set at run time (constants.always_return_list = True): later reads see it
                self.overrides[(base.name, target.attr)] = v
                self.trace.events.append(("setglobal", base.name, target.attr, v, target))
            else:
                raise Unsupported("attribute store on %r" % (base,))
        else:
            raise Unsupported("assignment target %s" % type(target).__name__)

    # -------------------------------------------------------- expressions
    def eval(self, node, env):
        m = getattr(self, "e_" + type(node).__name__, None)
        if m is None:
            raise Unsupported("expression %s at line %s: %s" % (type(node).__name__, getattr(node, "lineno", "?"), norm(node)))
        return m(node, env)

    def e_Constant(self, node, env):
        return node.value

    def e_Name(self, node, env):
        if node.id in env:
            return env[node.id]
        modname = env.get("__module__")
        func = env.get("__func__")
        if func is not None and hasattr(func, "locals") and node.id in func.locals:
            # a local that no statement on this path has bound
            raise RaiseEx("UnboundLocalError", "local variable '%s' referenced before assignment" % node.id, node)
        # enclosing function's variables are not modelled: builders do not use closures
        mod = self.proj.modules.get(modname)
        if mod is not None:
            tgt = mod.imports.get(node.id)
            if tgt is not None:
                if (modname, node.id) in self.overrides:
                    return self.overrides[(modname, node.id)]          # the importing module's own binding
                if "." in tgt and tuple(tgt.rsplit(".", 1)) in self.overrides:
                    return self.overrides[tuple(tgt.rsplit(".", 1))]
                if tgt in self.proj.modules:
                    return ModVal(tgt)
                if tgt in self.proj.funcs:
                    return FuncVal(self.proj.funcs[tgt])
                if tgt in self.proj.classes:
                    return TypeVal(tgt)
                if "." in tgt:
                    m_, n_ = tgt.rsplit(".", 1)
                    if m_ in self.proj.modules and n_ in self.proj.modules[m_].toplevel and m_ != modname:
                        # a module-level name of another package module (an alias, a constant, an instance)
                        return self.e_Name(ast.Name(id=n_, ctx=ast.Load(), lineno=getattr(node, "lineno", 0)), {"__module__": m_})
                return ModVal(tgt)
            q = "%s.%s" % (modname, node.id)
            if q in self.proj.funcs:
                return FuncVal(self.proj.funcs[q])
            if q in self.proj.classes:
                return TypeVal(q)
            if (modname, node.id) in self.overrides:
                return self.overrides[(modname, node.id)]
            e = self.folder.env(modname)
            if node.id in e:
                return _thaw(e[node.id])
            tl0 = mod.toplevel.get(node.id)
            if isinstance(tl0, ast.Assign) and isinstance(tl0.value, ast.Name) and tl0.value.id != node.id:
                # NAME = OtherName (dict_class = Attributes): whatever the other name is
                return self.e_Name(ast.Name(id=tl0.value.id, ctx=ast.Load(), lineno=getattr(node, "lineno", 0)), {"__module__": modname})
            if node.id in mod.toplevel:
                # one object per module-level name: identity tests (sentinels) are meaningful
                key = (modname, node.id)
                if key not in self._mod_objs:
                    o_ = Opaque(node.id, "obj")
                    tl = mod.toplevel[node.id]
                    dn_ = (self.proj.dotted(tl.value.func, mod, None) or "") if isinstance(tl, ast.Assign) and isinstance(tl.value, ast.Call) else ""
                    ext_call = bool(dn_) and (dn_ in self.ext_summaries or dn_ in ("itertools.count", "collections.defaultdict", "collections.OrderedDict", "collections.Counter", "collections.namedtuple",
                                                                                    "operator.itemgetter", "operator.attrgetter", "operator.methodcaller", "functools.partial", "re.compile"))
                    if isinstance(tl, ast.Assign) and (isinstance(tl.value, (ast.Dict, ast.Tuple, ast.List, ast.Lambda)) or ext_call):
                        # a module-level table the constant folder cannot represent (it holds lambdas / classes): evaluated here
                        try:
                            n_ev = len(self.trace.events)
                            self._mod_objs[key] = self.eval(tl.value, {"__module__": modname})
                            del self.trace.events[n_ev:]
                            return self._mod_objs[key]
                        except Unsupported:
                            pass
                    done_ = False
                    if isinstance(tl, ast.Assign) and isinstance(tl.value, ast.Call) and not tl.value.args and not tl.value.keywords:
                        # NAME = PackageClass(): an instance, so that its methods dispatch
                        d_ = self.proj.dotted(tl.value.func, mod, None)
                        if d_ in self.proj.classes and d_ in DOMAIN_CLASSES:
                            o_ = Opaque(node.id, d_.split(".")[-1])
                            o_.attrs["__module_object__"] = True
                            done_ = True
                    if not done_ and isinstance(tl, ast.Assign) and len(tl.targets) == 1 and isinstance(tl.targets[0], ast.Name) and key not in self._mod_busy:
                        # any other module-level value the folder cannot represent (an instance of a helper class, a name
                        # built from os.getpid(), ...): evaluated once, here; a bare unknown object keeps its name identity
                        self._mod_busy.add(key)
                        try:
                            n_ev = len(self.trace.events)
                            v_ = self.eval(tl.value, {"__module__": modname})
                            del self.trace.events[n_ev:]
                            if not (isinstance(v_, (Opaque, ModVal)) and not getattr(v_, "attrs", None)) and not isinstance(v_, Sym):
                                o_ = v_
                        except (Unsupported, RaiseEx):
                            pass
                        finally:
                            self._mod_busy.discard(key)
                    self._mod_objs[key] = o_
                return self._mod_objs[key]
        if node.id in ("str", "int", "list", "tuple", "dict", "set", "bytes", "float", "bool", "object"):
            return TypeVal(node.id)
        if node.id in ("isinstance", "len", "map", "locals", "hasattr", "any", "all", "sorted", "enumerate",
                       "range", "zip", "getattr", "iter", "print", "min", "max", "repr", "type", "ord", "chr", "hex", "setattr", "delattr", "next", "vars", "callable", "sum", "abs", "hash", "float", "slice", "open", "issubclass", "reversed", "divmod", "format", "filter", "frozenset", "super"):
            return Builtin(node.id)
        if node.id in ("ValueError", "TypeError", "KeyError", "NotImplementedError", "Exception", "StopIteration"):
            return TypeVal(node.id)
        raise Unsupported("unbound name %s at line %s" % (node.id, getattr(node, "lineno", "?")))

    def e_Attribute(self, node, env):
        base = self.eval(node.value, env)
        if hasattr(base, "ai_getattr"):
            v_ = base.ai_getattr(self, node.attr)
            return BoundMethod(base, node.attr) if v_ is NotImplemented else v_
        if isinstance(base, BoundMethod) and isinstance(base.base, (Opaque, Sym)):
            base = Opaque("%s.%s" % (base.base.name, base.attr), "obj")
        if isinstance(base, ModVal):
            if base.ext:
                if base.name + "." + node.attr in self.ext_values:
                    return self.ext_values[base.name + "." + node.attr]
                return ModVal(base.name + "." + node.attr, ext=True)
            if base.name in self.proj.modules:
                q = "%s.%s" % (base.name, node.attr)
                if q in self.proj.funcs:
                    return FuncVal(self.proj.funcs[q])
                if q in self.proj.classes:
                    return TypeVal(q)
                if (base.name, node.attr) in self.overrides:
                    return self.overrides[(base.name, node.attr)]
                e = self.folder.env(base.name)
                if node.attr in e:
                    return _thaw(e[node.attr])
                if node.attr in self.proj.modules[base.name].toplevel:
                    # a module-level object the folder cannot represent (namedtuple type, table of lambdas, instance)
                    return self.e_Name(ast.Name(id=node.attr, ctx=ast.Load(), lineno=getattr(node, "lineno", 0)), {"__module__": base.name})
                raise Unsupported("cannot fold %s.%s" % (base.name, node.attr))
            if base.name + "." + node.attr in self.ext_values:
                return self.ext_values[base.name + "." + node.attr]
            return ModVal(base.name + "." + node.attr)
        if isinstance(base, TypeVal) and base.name in self.proj.classes:
            k0 = self.proj.classes[base.name]
            for k in self.proj.mro(k0):
                ce_ = self._class_env(k)
                if node.attr in ce_:
                    return ce_[node.attr]
            if self.proj.method(k0, node.attr) is not None:
                return BoundMethod(base, node.attr)
            if node.attr == "__name__":
                return k0.name
        if isinstance(base, (Opaque, Sym)):
            if node.attr in base.attrs:
                return base.attrs[node.attr]
            if node.attr == "__getitem__":
                return BoundMethod(base, node.attr)
            if isinstance(base, Opaque) and base.attrs and base.name not in ("self", "cls"):
                # a read-only property of a package class (Feature.chrom / .stop)
                m_ = self._class_method(base.kind, node.attr)
                if m_ is not None and any(isinstance(d, ast.Name) and d.id == "property" for d in m_.node.decorator_list):
                    return self.call_func(m_, [], {}, self_obj=base, node=node)
            if isinstance(base, Opaque) and (base.name in ("self", "cls") or isinstance(base.attrs.get("__class__"), TypeVal)
                                             or (base.attrs and base.kind not in ("obj", "iter", "list", "dict", "set") and self._class_of_kind(base.kind) is not None)):
                # a class-level constant (self._SQL): the class body assignment, along the MRO of the receiver's class
                func = env.get("__func__")
                c = None
                if isinstance(base.attrs.get("__class__"), TypeVal):
                    c = self.proj.classes.get(base.attrs["__class__"].name)
                elif base.kind != "obj":
                    cs_ = [k_ for q_, k_ in self.proj.classes.items() if q_.split(".")[-1] == base.kind]
                    c = cs_[0] if len(cs_) == 1 else None
                if c is None:
                    c = getattr(func, "cls", None)
                f_ = func
                while c is None and f_ is not None and getattr(f_, "parent", None) is not None:
                    f_ = f_.parent
                    c = f_.cls
                if c is not None:
                    # a method read as a value (handler tables, map(self.f, xs)): bound to the receiver
                    m_ = (self._class_method(base.kind, node.attr) if base.kind != "obj" else None) or self.proj.method(c, node.attr)
                    if m_ is not None and not any(isinstance(d, ast.Name) and d.id == "property" for d in m_.node.decorator_list):
                        bm_ = BoundMethod(base, node.attr)
                        bm_.func = m_           # resolved here: the value may be called from a function of another class or module
                        return bm_
                    for k in self.proj.mro(c):
                        vals = [n.value for n in k.node.body if isinstance(n, ast.Assign) and any(isinstance(t, ast.Name) and t.id == node.attr for t in n.targets)]
                        # A, B, C = <sequence>: the element at the name's position
                        for n in k.node.body:
                            if isinstance(n, ast.Assign) and len(n.targets) == 1 and isinstance(n.targets[0], (ast.Tuple, ast.List)):
                                names_ = [t.id if isinstance(t, ast.Name) else None for t in n.targets[0].elts]
                                if node.attr in names_:
                                    seq_ = self.folder.try_fold(n.value, k.module.name, default=None)
                                    if seq_ is None:
                                        try:
                                            seq_ = self.eval(n.value, {"__module__": k.module.name})
                                        except Unsupported:
                                            seq_ = None
                                    if isinstance(seq_, range):
                                        seq_ = list(seq_)
                                    if isinstance(seq_, (list, tuple)) and len(seq_) == len(names_):
                                        return seq_[names_.index(node.attr)]
                        if len(vals) == 1:
                            v = self.folder.try_fold(vals[0], k.module.name, default=None)
                            if v is not None:
                                return _thaw(v) if not isinstance(v, (str, int, float)) else v
                            ce_ = self._class_env(k)
                            if node.attr in ce_:
                                return ce_[node.attr]
                            if isinstance(vals[0], ast.Call) and not vals[0].args and not vals[0].keywords:
                                # NAME = object(): one sentinel per class constant, identity is meaningful
                                key_ = (k.qual, node.attr)
                                if key_ not in self._mod_objs:
                                    self._mod_objs[key_] = Opaque("%s.%s" % (k.name, node.attr), "obj")
                                return self._mod_objs[key_]
                        if vals:
                            break
            if isinstance(base, Sym) and base.kind == "Feature":
                kind = "int" if node.attr in ("start", "end", "stop") else "str"
                return Sym("%s.%s" % (base.name, node.attr), kind, True)
            # a plain attribute read of an unknown object: an opaque value named after its path
            v = Sym("%s.%s" % (base.name, node.attr), "any", None)
            return v
        if isinstance(base, (str, int, float, list, tuple, dict)) or base is None:
            if not hasattr(base, node.attr):
                raise RaiseEx("AttributeError", "%r object has no attribute %r" % (type(base).__name__, node.attr), node)
        return BoundMethod(base, node.attr)

    def e_List(self, node, env):
        out = []
        for e in node.elts:
            if isinstance(e, ast.Starred):
                self.list_extend(out, self.eval(e.value, env))
            else:
                out.append(self.eval(e, env))
        return out

    def e_Tuple(self, node, env):
        return tuple(self.e_List(node, env))

    def e_Lambda(self, node, env):
        return LambdaVal(node, env)

    def e_Set(self, node, env):
        return _setval(self.e_List(node, env))

    def e_SetComp(self, node, env):
        fake = ast.ListComp(elt=node.elt, generators=node.generators)
        ast.copy_location(fake, node)
        v = self.e_ListComp(fake, env)
        return _setval(v) if isinstance(v, list) and not any(isinstance(x, Star) for x in v) else v

    def e_Dict(self, node, env):
        d = {}
        for k, v in zip(node.keys, node.values):
            if k is None:
                d.update(self.eval(v, env))
            else:
                d[self.eval(k, env)] = self.eval(v, env)
        return d

    def e_JoinedStr(self, node, env):
        parts = []
        for p in node.values:
            if isinstance(p, ast.Constant):
                parts.append(p.value)
            else:
                parts.append(as_astr(self.eval(p.value, env)))
        return AStr(parts).simplify()

    def e_BinOp(self, node, env):
        return self.binop(node.op, self.eval(node.left, env), self.eval(node.right, env), node)

    def binop(self, op, a, b, node):
        if isinstance(a, SetVal) and isinstance(b, (SetVal, list, tuple)) and isinstance(op, (ast.BitOr, ast.BitAnd, ast.Sub, ast.BitXor)) and isinstance(b, SetVal):
            same = lambda x, y: x is y or (type(x) is type(y) and x == y)
            has = lambda coll, x: any(same(x, y) for y in coll)
            if isinstance(op, ast.BitOr):
                return _setval(list(a) + list(b))
            if isinstance(op, ast.BitAnd):
                return _setval([x for x in a if has(b, x)])
            if isinstance(op, ast.Sub):
                return _setval([x for x in a if not has(b, x)])
            return _setval([x for x in a if not has(b, x)] + [x for x in b if not has(a, x)])
        if isinstance(op, ast.Add):
            if isinstance(a, list) and isinstance(b, list):
                return a + b
            if isinstance(a, tuple) and isinstance(b, tuple):
                return a + b
            if isinstance(a, list) and isinstance(b, (Opaque, RepList)):
                return a + [Star(b)]
            if is_strlike(a) and is_strlike(b):
                return AStr([as_astr(a), as_astr(b)]).simplify()
            if isinstance(a, (int, float)) and isinstance(b, (int, float)):
                return a + b
            if isinstance(a, Sym) or isinstance(b, Sym):
                return Sym("(%s + %s)" % (_nm(a), _nm(b)), "int", True)
        if isinstance(a, PosVal) and isinstance(b, int) and not isinstance(b, bool) and isinstance(op, (ast.Add, ast.Sub)):
            return PosVal(a.owner, a.part, a.off + (b if isinstance(op, ast.Add) else -b))
        if isinstance(b, PosVal) and isinstance(a, int) and not isinstance(a, bool) and isinstance(op, ast.Add):
            return PosVal(b.owner, b.part, b.off + a)
        if isinstance(op, ast.Sub):
            if isinstance(a, (int, float)) and isinstance(b, (int, float)):
                return a - b
            if isinstance(a, Sym) or isinstance(b, Sym):
                return Sym("(%s - %s)" % (_nm(a), _nm(b)), "int", True)
        if isinstance(op, ast.Mult):
            if isinstance(a, (int, float, str, list)) and isinstance(b, (int, float)):
                return a * b
            # ["bin = ?"] * len(xs)  /  "?" * len(xs): one repetition per element of the collection
            if isinstance(b, Sym) and b.name.startswith("len(") and isinstance(a, list) and len(a) == 1:
                coll = self._len_source.get(b.name)
                if coll is not None:
                    return RepList(a[0], coll)
            if isinstance(a, Sym) and a.name.startswith("len(") and isinstance(b, list) and len(b) == 1:
                coll = self._len_source.get(a.name)
                if coll is not None:
                    return RepList(b[0], coll)
            for x, y in ((a, b), (b, a)):
                if isinstance(y, Sym) and y.name.startswith("len(") and isinstance(x, str) and x:
                    coll = self._len_source.get(y.name)
                    if coll is not None:
                        return AStr([Rep(coll, x, "")])
        if isinstance(a, (int, float)) and isinstance(b, (int, float)) and not isinstance(a, bool) and not isinstance(b, bool):
            if isinstance(op, ast.Div):
                if b == 0:
                    raise RaiseEx("ZeroDivisionError", "division by zero", node)
                return a / b
            if isinstance(op, ast.Mult):
                return a * b
        if isinstance(a, int) and isinstance(b, int) and not isinstance(a, bool) and not isinstance(b, bool):
            if isinstance(op, ast.RShift) and 0 <= b < 256:
                return a >> b
            if isinstance(op, ast.LShift) and 0 <= b < 256:
                return a << b
            if isinstance(op, ast.FloorDiv) and b != 0:
                return a // b
            if isinstance(op, ast.BitAnd):
                return a & b
            if isinstance(op, ast.BitOr):
                return a | b
        if isinstance(op, ast.Pow) and isinstance(a, int) and isinstance(b, int) and b < 100:
            return a ** b
        if isinstance(op, ast.Mod) and is_strlike(a):
            return self.percent(as_astr(a), b)
        if isinstance(op, ast.Mod) and isinstance(a, int) and isinstance(b, int):
            return a % b
        raise Unsupported("binary %s on %r, %r at line %s" % (type(op).__name__, a, b, getattr(node, "lineno", "?")))

    def percent(self, fmt, arg):
        if isinstance(arg, dict) or hasattr(arg, "as_dict"):
            import re as _re0
            mapping = arg if isinstance(arg, dict) else arg.as_dict()
            out0 = []
            for p in fmt.parts:
                if not isinstance(p, str):
                    out0.append(p)
                    continue
                i = 0
                for m_ in _re0.finditer(r"%\((\w+)\)([0 #+-]*\d*)([sdrxX])|%%", p):
                    out0.append(p[i:m_.start()])
                    i = m_.end()
                    if m_.group(0) == "%%":
                        out0.append("%")
                        continue
                    if m_.group(1) not in mapping:
                        raise RaiseEx("KeyError", m_.group(1), None)
                    v_ = mapping[m_.group(1)]
                    spec_ = m_.group(2) + m_.group(3)
                    if spec_ in ("s", "d", "r"):
                        out0.append(self.to_str(v_))
                    elif isinstance(v_, (int, str)) and not isinstance(v_, bool):
                        out0.append(("%" + spec_) % v_)
                    else:
                        out0.append(Sym("fmt(%s,%s)" % (_nm(v_), spec_), "str", True))
                out0.append(p[i:])
            return AStr(out0).simplify()
        args = list(arg) if isinstance(arg, tuple) else [arg]
        out = []
        k = 0
        for p in fmt.parts:
            if not isinstance(p, str):
                out.append(p)
                continue
            i = 0
            while True:
                j = p.find("%", i)
                if j < 0:
                    out.append(p[i:])
                    break
                out.append(p[i:j])
                if p[j:j + 2] == "%%":
                    out.append("%")
                    i = j + 2
                    continue
                if p[j:j + 2] in ("%s", "%d", "%r"):
                    if k >= len(args):
                        raise RaiseEx("TypeError", "not enough arguments for format string", None)
                    out.append(self.to_str(args[k]))
                    k += 1
                    i = j + 2
                    continue
                import re as _re
                m_ = _re.match(r"%([0 #+-]*)(\d*)([xXdos])", p[j:])
                if m_:
                    if k >= len(args):
                        raise RaiseEx("TypeError", "not enough arguments for format string", None)
                    v_ = args[k]
                    k += 1
                    spec_ = m_.group(1) + m_.group(2) + m_.group(3)
                    if isinstance(v_, Sym):
                        out.append(Sym("fmt(%s,%s)" % (v_.name, spec_), "str", True))
                    elif isinstance(v_, (int, str)) and not isinstance(v_, bool):
                        out.append(("%" + spec_) % v_)
                    else:
                        raise Unsupported("format spec %r applied to %r" % (spec_, v_))
                    i = j + m_.end()
                    continue
                raise Unsupported("format spec %r" % p[j:j + 4])
        if k != len(args):
            raise RaiseEx("TypeError", "not all arguments converted during string formatting", None)
        return AStr(out).simplify()

    def to_py_str(self, v):
        v = self.to_str(v)
        if isinstance(v, AStr):
            v = v.simplify()
        if not isinstance(v, str):
            raise Unsupported("replacement text is not concrete: %r" % (v,))
        return v

    def to_str(self, v):
        if isinstance(v, (str, AStr, Sym)):
            return as_astr(v)
        if isinstance(v, bool) or v is None:
            return AStr([str(v)])
        if isinstance(v, (int, float)):
            return AStr([str(v)])
        if isinstance(v, (list, tuple)):
            parts = ["[" if isinstance(v, list) else "("]
            for i, x in enumerate(v):
                if i:
                    parts.append(", ")
                if isinstance(x, str):
                    parts.append(repr(x))
                else:
                    parts.append(self.to_str(x))
            parts.append("]" if isinstance(v, list) else ")")
            return AStr(parts)
        if isinstance(v, Opaque):
            return AStr([Sym("str(%s)" % v.name, "str", True)])
        if isinstance(v, (TypeVal, Builtin, ModVal, Callback)):
            return AStr([Sym("str(%s)" % v.name, "str", True)])
        if isinstance(v, (FuncVal, LambdaVal)):
            return AStr([Sym("str(function)", "str", True)])
        if isinstance(v, dict):
            return AStr([Sym("str(dict)", "str", True)])
        raise Unsupported("str() of %r" % (v,))

    def e_UnaryOp(self, node, env):
        v = self.eval(node.operand, env)
        if isinstance(node.op, ast.Not):
            t = self.truth(v)
            if t is None:
                return not self.decide(v, node)
            return not t
        if isinstance(node.op, ast.USub) and isinstance(v, (int, float)):
            return -v
        if isinstance(node.op, ast.USub) and isinstance(v, (Opaque, Sym)):
            return Sym("neg(%s)" % v.name, "any", None)       # an object's own __neg__: named, for the caller to interpret
        if isinstance(node.op, ast.UAdd) and isinstance(v, (int, float)):
            return v
        if isinstance(node.op, ast.Invert) and isinstance(v, int):
            return ~v
        raise Unsupported("unary op at line %s" % node.lineno)

    def e_BoolOp(self, node, env):
        is_and = isinstance(node.op, ast.And)
        v = None
        for e in node.values:
            v = self.eval(e, env)
            t = self.decide(v, e)
            if is_and and not t:
                return v if (self.truth(v) is not None or not isinstance(v, ACond)) else False
            if not is_and and t:
                return v if (self.truth(v) is not None or not isinstance(v, ACond)) else True
        if self.truth(v) is None and isinstance(v, ACond):
            return is_and
        return v

    def e_IfExp(self, node, env):
        if self.decide(self.eval(node.test, env), node):
            return self.eval(node.body, env)
        return self.eval(node.orelse, env)

    def e_Compare(self, node, env):
        left = self.eval(node.left, env)
        result = True
        for op, rn in zip(node.ops, node.comparators):
            right = self.eval(rn, env)
            r = self.compare(op, left, right, node)
            if isinstance(r, ACond):
                if len(node.ops) == 1:
                    return r
                r = self.decide(r, node)
            if not r:
                return False
            left = right
        return result

    def compare(self, op, a, b, node):
        if isinstance(op, (ast.Is, ast.IsNot)):
            if (b is None or a is None) and isinstance(a if b is None else b, Opaque) and (a if b is None else b).kind == "maybe-row":
                c_ = ACond("is", a if b is None else b, None, node)
                return c_ if isinstance(op, ast.Is) else ACond("not", c_, None, node)
            if b is None or a is None:
                other = a if b is None else b
                if isinstance(other, (Sym, AStr, Opaque, RepList, ACond, list, dict, tuple, str, int, FuncVal)):
                    res = False
                else:
                    res = other is None
                return res if isinstance(op, ast.Is) else not res
            res = a is b
            return res if isinstance(op, ast.Is) else not res
        if isinstance(op, (ast.In, ast.NotIn)):
            res = self.contains(b, a, node)
            if isinstance(res, ACond):
                return res if isinstance(op, ast.In) else ACond("not", res, None, node)
            return res if isinstance(op, ast.In) else not res
        for x, y, flip in ((a, b, False), (b, a, True)):
            if isinstance(x, PosVal) and isinstance(y, int) and not isinstance(y, bool) and y <= 0:
                # a found position is >= 0 (and > any negative number)
                table = {ast.Eq: y == 0 and None, ast.NotEq: None, ast.Lt: False, ast.LtE: None, ast.Gt: True if y < 0 else None, ast.GtE: True}
                if flip:
                    table = {ast.Eq: table[ast.Eq], ast.NotEq: None, ast.Gt: False, ast.GtE: None, ast.Lt: True if y < 0 else None, ast.LtE: True}
                if y < 0:
                    table[ast.Eq], table[ast.NotEq] = False, True
                if y == 0:
                    # holes stand for at least one character: the position is 0 exactly at the very start of the text
                    zero = (x.part == 0 and x.off == 0)
                    table = {ast.Eq: zero, ast.NotEq: not zero, ast.Gt: not zero, ast.GtE: True, ast.Lt: False, ast.LtE: zero} if not flip else \
                        {ast.Eq: zero, ast.NotEq: not zero, ast.Lt: not zero, ast.LtE: True, ast.Gt: False, ast.GtE: zero}
                r_ = table.get(type(op))
                if r_ is not None and r_ is not False or (r_ is False):
                    if r_ is not None:
                        return r_
                raise Unsupported("comparison of a string position with %d" % y)
        # a character of a hole is assumed not to be one of the structural characters
        for x, y in ((a, b), (b, a)):
            if isinstance(x, Sym) and x.kind == "char" and isinstance(y, str) and len(y) == 1 and y in self.hole_free_of:
                if isinstance(op, ast.Eq):
                    return False
                if isinstance(op, ast.NotEq):
                    return True
        # a length known to be at least `min`
        if isinstance(a, Sym) and "min" in a.attrs and isinstance(b, int) and not isinstance(b, bool):
            m = a.attrs["min"]
            if isinstance(op, ast.Gt) and m > b:
                return True
            if isinstance(op, ast.GtE) and m >= b:
                return True
            if isinstance(op, ast.Eq) and m > b:
                return False
            if isinstance(op, ast.NotEq) and m > b:
                return True
            if isinstance(op, ast.Lt) and m >= b:
                return False
            if isinstance(op, ast.LtE) and m > b:
                return False
        abstract = lambda v: isinstance(v, (Sym, AStr, Opaque, ACond))
        if abstract(a) or abstract(b):
            if isinstance(op, (ast.Eq, ast.NotEq)):
                if isinstance(a, Sym) and isinstance(b, Sym) and a.name == b.name:
                    return isinstance(op, ast.Eq)
                if isinstance(a, AStr) and isinstance(b, str) or isinstance(b, AStr) and isinstance(a, str):
                    pass
            return ACond(_OPS[type(op)], a, b, node)
        try:
            if isinstance(op, ast.Eq):
                return a == b
            if isinstance(op, ast.NotEq):
                return a != b
            if isinstance(op, ast.Lt):
                return a < b
            if isinstance(op, ast.LtE):
                return a <= b
            if isinstance(op, ast.Gt):
                return a > b
            if isinstance(op, ast.GtE):
                return a >= b
        except TypeError as e:
            raise RaiseEx("TypeError", str(e), node)
        raise Unsupported("comparison %s" % type(op).__name__)

    # ---- ordering of keys with symbolic parts: every comparison that the values decide is a fork (so an order that
    # depends on attribute *values* shows up as paths that differ)
    def _sym_eq(self, a, b, node):
        if _concrete_key(a) and _concrete_key(b):
            return a == b
        if isinstance(a, (tuple, list)) and isinstance(b, (tuple, list)):
            if len(a) != len(b):
                return False
            return all(self._sym_eq(x, y, node) for x, y in zip(a, b))
        if a is b or (isinstance(a, Sym) and isinstance(b, Sym) and a.name == b.name):
            return True
        if isinstance(a, AStr) and isinstance(b, AStr) and a.render() == b.render():
            return True
        if not isinstance(a, (Sym, AStr, str)) or not isinstance(b, (Sym, AStr, str)):
            raise Unsupported("ordering of %r and %r" % (a, b))
        return self.decide(ACond("==", a, b, node), node)

    def _sym_lt(self, a, b, node):
        if _concrete_key(a) and _concrete_key(b):
            try:
                return a < b
            except TypeError as e:
                raise RaiseEx("TypeError", str(e), node)
        if isinstance(a, (tuple, list)) and isinstance(b, (tuple, list)) and type(a) is type(b):
            for x, y in zip(a, b):
                if self._sym_eq(x, y, node):
                    continue
                return self._sym_lt(x, y, node)
            return len(a) < len(b)
        if not isinstance(a, (Sym, AStr, str)) or not isinstance(b, (Sym, AStr, str)):
            raise Unsupported("ordering of %r and %r" % (a, b))
        if self._sym_eq(a, b, node):
            return False
        return self.decide(ACond("<", a, b, node), node)

    def _symbolic_order(self, keys, reverse, node):
        """Stable order of the indices of `keys` (insertion sort on the forking comparison)."""
        order = []
        for i in range(len(keys)):
            j = len(order)
            while j > 0 and (self._sym_lt(keys[order[j - 1]], keys[i], node) if reverse else self._sym_lt(keys[i], keys[order[j - 1]], node)):
                j -= 1
            order.insert(j, i)
        return order

    def _sym_lookup(self, table, key, node):
        """A symbolic string key looked up in a concrete table of string keys: one path per key it may equal, and one
        on which it equals none.  ("hit", value) / ("miss",); None when the key is not symbolic."""
        if not (isinstance(key, Sym) and key.kind in ("str", "char", "any") and key.truthy is not False):
            return None
        if any(k is key for k in table):
            return None
        keys = [k for k in table if isinstance(k, str)]
        if not keys or len(keys) != len(table):
            return None
        if len(keys) > 96:
            raise Unsupported("symbolic key looked up in a table of %d entries" % len(keys))
        for k in keys:
            if self.decide(ACond("==", key, k, node), node):
                return ("hit", table[k])
        return ("miss",)

    def contains(self, coll, item, node):
        if isinstance(coll, range):
            if isinstance(item, int) and not isinstance(item, bool):
                return item in coll
            if isinstance(item, Sym):
                return ACond("in", item, ("range", coll.start, coll.stop, coll.step), node)
            return False
        if isinstance(coll, AStr) or (isinstance(coll, str) and isinstance(item, (str, AStr, Sym))):
            if isinstance(item, str):
                if isinstance(coll, str):
                    return item in coll
                for prefix_, text_ in self.holes_containing.items():
                    # a hole known to contain some text (an encoded value contains a '%')
                    if item == text_ and any(isinstance(p, Sym) and p.name.startswith(prefix_) for p in coll.parts):
                        return True
                # holes are assumed free of the searched literal (recorded assumption)
                return any(isinstance(p, str) and item in p for p in coll.parts)
            return ACond("in", item, coll, node)
        if isinstance(coll, (list, tuple, set, frozenset)):
            if isinstance(item, (Sym, AStr)):
                if any(x is item or x == item for x in coll if isinstance(x, (Sym, AStr))):
                    return True
                return ACond("in", item, tuple(coll) if not isinstance(coll, tuple) else coll, node)
            return item in coll
        if isinstance(coll, dict):
            if isinstance(item, (Sym, AStr)):
                return ACond("in", item, tuple(coll), node)
            return item in coll
        if isinstance(coll, (Opaque, Sym)):
            return ACond("in", item, coll, node)
        raise Unsupported("membership test on %r" % (coll,))

    def e_Subscript(self, node, env):
        base = self.eval(node.value, env)
        if isinstance(node.slice, ast.Slice):
            lo = self.eval(node.slice.lower, env) if node.slice.lower else None
            hi = self.eval(node.slice.upper, env) if node.slice.upper else None
            if node.slice.step is not None:
                step = self.eval(node.slice.step, env)
                if isinstance(base, (list, tuple, str)) and all(x is None or (isinstance(x, int) and not isinstance(x, bool)) for x in (lo, hi, step)):
                    return base[lo:hi:step]
                if isinstance(base, (Sym, AStr, Opaque)) and lo is None and hi is None and step == -1:
                    nm_ = base.name if isinstance(base, (Sym, Opaque)) else base.render()
                    return Sym("%s[::-1]" % nm_, "str" if not isinstance(base, Opaque) else "any", None)
                raise Unsupported("extended slice of %r" % (base,))
            if isinstance(base, (list, tuple, str)):
                if not all(x is None or isinstance(x, int) for x in (lo, hi)):
                    raise Unsupported("slice of a concrete sequence with abstract bounds")
                return base[lo:hi]          # a bool bound is 0 / 1, as in Python
            if isinstance(base, AStr) and (isinstance(lo, PosVal) or isinstance(hi, PosVal)) and all(x is None or x == 0 or isinstance(x, PosVal) for x in (lo, hi)):
                parts = list(base.parts)
                if isinstance(lo, PosVal) and isinstance(hi, PosVal) and lo.owner == hi.owner == base.render() and lo.part == hi.part and isinstance(parts[lo.part], str) \
                        and lo.off >= len(parts[lo.part]) and hi.off == lo.off + 1:
                    # one character of look-ahead past the literal part the position was found in
                    k_ = lo.off - len(parts[lo.part])
                    if lo.part + 1 >= len(parts):
                        return ""
                    nxt = parts[lo.part + 1]
                    if k_ == 0:
                        return nxt[0] if isinstance(nxt, str) else Sym("%s[0]" % getattr(nxt, "name", "rep"), "char", True)
                for x in (lo, hi):
                    if isinstance(x, PosVal) and (x.owner != base.render() or not (0 <= x.off <= len(parts[x.part]))):
                        raise Unsupported("slice position outside the literal text it was found in")
                if isinstance(hi, PosVal):
                    parts = parts[:hi.part] + [parts[hi.part][:hi.off]]
                if isinstance(lo, PosVal):
                    if isinstance(hi, PosVal) and (lo.part, lo.off) > (hi.part, hi.off):
                        return ""
                    tail = parts[lo.part][lo.off:] if lo.part < len(parts) else ""
                    parts = [tail] + parts[lo.part + 1:]
                return AStr(parts).simplify()
            if isinstance(base, AStr) and base.parts and isinstance(base.parts[0], str) and all(isinstance(x, int) and not isinstance(x, bool) and 0 <= x <= len(base.parts[0]) for x in (lo, hi)):
                return base.parts[0][lo:hi]        # both bounds inside the leading literal text
            if isinstance(base, AStr) and base.parts and isinstance(base.parts[0], str) and isinstance(lo, int) and not isinstance(lo, bool) and 0 <= lo <= len(base.parts[0]) and hi is None:
                return AStr([base.parts[0][lo:]] + list(base.parts[1:])).simplify()
            if isinstance(base, AStr) and lo in (None, 0) and isinstance(hi, int) and not isinstance(hi, bool) and hi > 0 and base.parts:
                # a short prefix: inside the first literal part, or the first character of a leading hole
                first = base.parts[0]
                if isinstance(first, str) and len(first) >= hi:
                    return first[:hi]
                if hi == 1 and not isinstance(first, str):
                    return Sym("%s[0]" % getattr(first, "name", "rep"), "char", True)
            if isinstance(base, AStr) and hi is None and isinstance(lo, int) and not isinstance(lo, bool) and lo < 0 and base.parts:
                last = base.parts[-1]
                if isinstance(last, str) and len(last) >= -lo:
                    return last[lo:]
                if lo == -1 and not isinstance(last, str):
                    return Sym("%s[-1]" % getattr(last, "name", "rep"), "char", True)
            if isinstance(base, Sym) and base.kind == "str" and ((lo in (None, 0) and hi == 1) or (lo == -1 and hi is None)):
                return Sym("%s[%d]" % (base.name, 0 if hi == 1 else -1), "char", True)
            if isinstance(base, AStr) and lo in (None, 0, 1) and hi in (None, -1):
                parts = list(base.parts)
                if lo == 1:
                    if not parts or not isinstance(parts[0], str):
                        raise Unsupported("slice [1:] of a string starting with a hole")
                    parts[0] = parts[0][1:]
                if hi == -1:
                    if not parts or not isinstance(parts[-1], str):
                        raise Unsupported("slice [:-1] of a string ending with a hole")
                    parts[-1] = parts[-1][:-1]
                return AStr(parts).simplify()
            if isinstance(base, (Sym, Opaque)):
                return Sym("%s[%s:%s]" % (base.name, lo, hi), "any", None)
            raise Unsupported("slice of %r" % (base,))
        key = self.eval(node.slice, env)
        return self._getitem(base, key, node, env)

    def _getitem(self, base, key, node, env):
        if hasattr(base, "as_dict") and isinstance(key, str):
            try:
                return base.get(key)
            except IndexError:
                raise RaiseEx("IndexError", "No item with that key", node)
        if isinstance(key, slice) and key.step is None:
            if isinstance(base, (list, tuple, str)):
                return base[key]
            if isinstance(base, (Sym, Opaque)):
                return Sym("%s[%s:%s]" % (base.name, key.start, key.stop), "any", None)
        if isinstance(base, AStr) and isinstance(key, PosVal):
            if key.owner != base.render():
                raise Unsupported("index by a position found in another string")
            part, off = key.part, key.off
            parts_ = base.parts
            while part < len(parts_) and isinstance(parts_[part], str) and off >= len(parts_[part]):
                off -= len(parts_[part])
                part += 1
                if part < len(parts_) and not isinstance(parts_[part], str):
                    if off == 0:
                        return Sym("%s[0]" % getattr(parts_[part], "name", "rep"), "char", True)
                    raise Unsupported("index into a hole")
            if part >= len(parts_):
                raise RaiseEx("IndexError", "string index out of range", node)
            if off < 0:
                if part == 0:
                    raise Unsupported("negative string position")
                prev = parts_[part - 1]
                if isinstance(prev, str):
                    if -off <= len(prev):
                        return prev[off]
                    raise Unsupported("index before a literal part")
                if off == -1:
                    return Sym("%s[-1]" % getattr(prev, "name", "rep"), "char", True)
                raise Unsupported("index into a hole")
            return parts_[part][off]
        if isinstance(base, AStr) and isinstance(key, int):
            if not base.parts:
                raise RaiseEx("IndexError", "string index out of range", node)
            if key >= 0 and isinstance(base.parts[0], str) and key < len(base.parts[0]):
                return base.parts[0][key]          # inside the leading literal text: exact
            if key >= 0 and isinstance(base.parts[0], str) and key == len(base.parts[0]) and len(base.parts) > 1:
                return Sym("%s[0]" % getattr(base.parts[1], "name", "rep"), "char", True)
            edge = base.parts[0] if key == 0 else base.parts[-1] if key == -1 else None
            if isinstance(edge, str):
                return edge[key]
            if edge is not None:
                return Sym("%s[%d]" % (getattr(edge, "name", "rep"), key), "char", True)
            raise Unsupported("index %d of an abstract string" % key)
        if isinstance(base, Sym) and base.kind == "str" and isinstance(key, int):
            return Sym("%s[%d]" % (base.name, key), "char", True)
        if isinstance(base, dict):
            try:
                hash(key)
            except TypeError:
                raise RaiseEx("TypeError", "unhashable type: %r" % type(key).__name__, node)
            hit = self._sym_lookup(base, key, node)
            if hit is not None and hit[0] == "hit":
                return hit[1]
            if key not in base:
                import collections as _c
                if isinstance(base, CounterVal):
                    return 0
                if isinstance(base, _c.defaultdict) and base.default_factory is not None:
                    base[key] = base.default_factory()
                    return base[key]
                raise RaiseEx("KeyError", repr(key), node)
            return base[key]
        if isinstance(base, (list, tuple, str)):
            if isinstance(key, int):
                try:
                    return base[key]
                except IndexError:
                    raise RaiseEx("IndexError", "index %s" % key, node)
            raise Unsupported("index %r" % (key,))
        if isinstance(base, Opaque) and base.name == "self":
            func = env.get("__func__")
            c_ = getattr(func, "cls", None)
            m_ = self.proj.method(c_, "__getitem__") if c_ is not None else None
            if m_ is not None and m_.qual in self.summaries:
                return self.summaries[m_.qual](self, [key], {}, node)
        store_ = self._dictlike(base)
        if store_ is not None and _concrete_key(key):
            # an instance of a package class derived from dict (parser.Quoter): its items, __missing__ for absent keys
            if key in store_:
                return store_[key]
            mm_ = self._class_method(base.kind, "__missing__")
            if mm_ is not None:
                return self.call_func(mm_, [key], {}, self_obj=base, node=node)
            raise RaiseEx("KeyError", repr(key), node)
        if isinstance(base, Opaque) and base.attrs:
            # an object of a package class that defines __getitem__: dispatch to it
            m_ = self._class_method(base.kind, "__getitem__")
            if m_ is not None and m_.qual in self.summaries:
                return self.summaries[m_.qual](self, [key], {}, node)
            if m_ is not None:
                return self.call_func(m_, [key], {}, self_obj=base, node=node)
        if isinstance(base, (Sym, Opaque)):
            return Sym("%s[%s]" % (base.name, _nm(key)), "any", None)
        raise Unsupported("subscript of %r" % (base,))

    def _lazy_lib(self, name, pos, kw, node):
        """itertools / collections.Counter on concrete sequences and streams."""
        import itertools as _it
        seq = lambda x: isinstance(x, (list, tuple, StreamVal, HostIter))
        if name == "itertools.chain" and all(seq(x) for x in pos) and any(isinstance(x, (StreamVal, HostIter)) for x in pos):
            return HostIter(_it.chain(*pos), "chain(%s)" % ", ".join(getattr(x, "name", "list") for x in pos))
        if name == "itertools.chain" and all(isinstance(x, (list, tuple)) for x in pos) and pos:
            return [y for x in pos for y in x]
        if name == "itertools.islice" and pos and seq(pos[0]) and all(isinstance(x, int) or x is None for x in pos[1:]):
            if isinstance(pos[0], (StreamVal, HostIter)):
                return HostIter(_it.islice(pos[0], *pos[1:]), "islice(%s)" % pos[0].name)
            return list(_it.islice(pos[0], *pos[1:]))
        if name == "itertools.chain.from_iterable" and len(pos) == 1 and isinstance(pos[0], (list, tuple)) and all(isinstance(x, (list, tuple)) for x in pos[0]):
            return [y for x in pos[0] for y in x]
        if name in ("inspect.isgenerator", "inspect.isgeneratorfunction") and len(pos) == 1:
            # generators are one kind of one-shot iterator; iter(list), map(), islice()/chain() objects and files are others
            return isinstance(pos[0], StreamVal) and getattr(pos[0], "is_generator", True) and name == "inspect.isgenerator"
        r_lib = self._more_lib(name, pos, kw, node)
        if r_lib is not NotImplemented:
            return r_lib
        if name == "contextlib.suppress":
            return SuppressVal([getattr(x, "name", str(x)) for x in pos])
        if name == "itertools.count":
            import itertools as _it2
            a_ = [x for x in list(pos) + [kw[k] for k in ("start", "step") if k in kw]]
            if all(isinstance(x, int) and not isinstance(x, bool) for x in a_):
                return HostIter(_it2.count(*a_), "count")
        if name == "itertools.groupby" and pos and isinstance(pos[0], (list, tuple, StreamVal, HostIter)):
            # runs of consecutive items with equal keys; each group is one-shot (next() / iteration consume it)
            keyf = kw.get("key", pos[1] if len(pos) > 1 else None)
            out, last, cur = [], None, None
            for x in list(pos[0]):
                k_ = self.call(keyf, [x], {}, node, {}) if keyf is not None else x
                same = cur is not None and (k_ is last or (_concrete_key(k_) and _concrete_key(last) and type(k_) is type(last) and k_ == last)
                                            or (isinstance(k_, Sym) and isinstance(last, Sym) and k_.name == last.name))
                if cur is not None and not same and not (_concrete_key(k_) and _concrete_key(last)) and not (isinstance(k_, Sym) and isinstance(last, Sym)):
                    raise Unsupported("groupby over keys that cannot be compared: %r, %r" % (last, k_))
                if not same:
                    cur = GenList()
                    out.append((k_, cur))
                    last = k_
                cur.append(x)
            return out
        if name == "collections.defaultdict":
            import collections as _c
            fac = pos[0] if pos else None
            pyfac = {"int": int, "list": list, "dict": dict, "set": list, "str": str}.get(getattr(fac, "name", None)) if isinstance(fac, TypeVal) else (None if fac is None else NotImplemented)
            if pyfac is NotImplemented:
                return NotImplemented
            d_ = _c.defaultdict(pyfac)
            if len(pos) > 1:
                if isinstance(pos[1], dict):
                    d_.update(pos[1])
                elif isinstance(pos[1], (list, tuple, StreamVal, HostIter)):
                    d_.update([tuple(x) for x in pos[1]])
                else:
                    return NotImplemented
            d_.update(kw)
            return d_
        if name == "collections.OrderedDict":
            return self.call_type("dict", pos, kw, node)
        if name == "collections.Counter" and not kw:
            c = CounterVal()
            if pos:
                self._counter_update(c, pos[0])
            return c
        return NotImplemented

    def _more_lib(self, name, pos, kw, node):
        """operator / functools / itertools / collections.namedtuple: library callables on concrete sequences."""
        import itertools as _it
        env0 = {}
        seq = lambda x: isinstance(x, (list, tuple, StreamVal, HostIter, dict, str))
        if name in ("urllib.parse.urlparse", "urlparse.urlparse") and pos and isinstance(pos[0], (str, AStr)):
            import urllib.parse as _up1
            v_ = pos[0].simplify() if isinstance(pos[0], AStr) else pos[0]
            if isinstance(v_, str):
                r_ = _up1.urlparse(v_)
                o_ = Opaque("urlparse(%s)" % v_, "obj")
                o_.attrs.update(dict(scheme=r_.scheme, netloc=r_.netloc, path=r_.path, query=r_.query, fragment=r_.fragment, params=r_.params))
                return o_
        if name == "re.compile" and pos and isinstance(pos[0], str) and not pos[1:] and not kw:
            return RegexVal(pos[0])
        if name in ("re.match", "re.search", "re.fullmatch", "re.findall", "re.finditer", "re.split", "re.sub", "re.subn") and len(pos) >= 2 and isinstance(pos[0], str) and not kw:
            return self.call_method(RegexVal(pos[0]), name.split(".")[1], list(pos[1:]), {}, node, env0)
        if name == "re.escape" and len(pos) == 1 and isinstance(pos[0], str):
            import re as _re_
            return _re_.escape(pos[0])
        if name == "operator.itemgetter" and pos:
            keys = list(pos)

            def get(i, p, k, n):
                vals = [i._getitem(p[0], key, n, env0) for key in keys]
                return vals[0] if len(vals) == 1 else tuple(vals)
            return LibFn("itemgetter%r" % (tuple(keys),), get)
        if name == "operator.attrgetter" and pos and all(isinstance(x, str) for x in pos):
            names_ = list(pos)

            def geta(i, p, k, n):
                vals = []
                for nm in names_:
                    o = p[0]
                    for part in nm.split("."):
                        fake = ast.Attribute(value=ast.Name(id="_o", ctx=ast.Load()), attr=part, ctx=ast.Load())
                        ast.copy_location(fake, n)
                        ast.copy_location(fake.value, n)
                        o = i.e_Attribute(fake, {"_o": o})
                    vals.append(o)
                return vals[0] if len(vals) == 1 else tuple(vals)
            return LibFn("attrgetter%r" % (tuple(names_),), geta)
        if name.startswith("operator.") and name.split(".")[1] in ("eq", "ne", "lt", "le", "gt", "ge") and len(pos) == 2:
            op = {"eq": ast.Eq, "ne": ast.NotEq, "lt": ast.Lt, "le": ast.LtE, "gt": ast.Gt, "ge": ast.GtE}[name.split(".")[1]]()
            cmp_ = ast.Compare(left=ast.Name(id="_a", ctx=ast.Load()), ops=[op], comparators=[ast.Name(id="_b", ctx=ast.Load())])
            ast.copy_location(cmp_, node)
            for x in ast.walk(cmp_):
                ast.copy_location(x, node)
            return self.e_Compare(cmp_, {"_a": pos[0], "_b": pos[1]})
        if name.startswith("operator.") and name.split(".")[1] in ("eq", "ne", "lt", "le", "gt", "ge") and not pos:
            return NotImplemented
        if name.startswith("operator.") and name.split(".")[1] in ("add", "sub", "mul", "floordiv", "mod", "and_", "or_", "xor", "lshift", "rshift", "truediv", "pow") and len(pos) == 2:
            op = {"add": ast.Add, "sub": ast.Sub, "mul": ast.Mult, "floordiv": ast.FloorDiv, "mod": ast.Mod, "and_": ast.BitAnd, "or_": ast.BitOr, "xor": ast.BitXor,
                  "lshift": ast.LShift, "rshift": ast.RShift, "truediv": ast.Div, "pow": ast.Pow}[name.split(".")[1]]()
            return self.binop(op, pos[0], pos[1], node)
        if name in ("operator.neg", "operator.pos", "operator.abs", "operator.truth", "operator.index") and len(pos) == 1:
            if name.endswith("truth"):
                return bool(self.decide(pos[0], node))
            if isinstance(pos[0], (int, float)) and not isinstance(pos[0], bool):
                return {"neg": -pos[0], "pos": +pos[0], "abs": abs(pos[0]), "index": pos[0]}[name.split(".")[1]]
        if name == "operator.getitem" and len(pos) == 2:
            return self._getitem(pos[0], pos[1], node, env0)
        if name == "operator.contains" and len(pos) == 2:
            return self.contains(pos[0], pos[1], node)
        if name == "operator.not_" and len(pos) == 1:
            return not self.decide(pos[0], node)
        if name == "operator.methodcaller" and pos and isinstance(pos[0], str):
            mname, a0, k0 = pos[0], list(pos[1:]), dict(kw)
            return LibFn("methodcaller(%s)" % mname, lambda i, p, k, n: i.call_method(p[0], mname, a0, k0, n, env0))
        if name == "functools.partial" and pos:
            f0, a0, k0 = pos[0], list(pos[1:]), dict(kw)
            return LibFn("partial", lambda i, p, k, n: i.call(f0, a0 + list(p), dict(k0, **k), n, env0))
        if name == "functools.reduce" and len(pos) in (2, 3) and seq(pos[1]):
            items = list(pos[1])
            if len(pos) == 3:
                acc = pos[2]
            elif items:
                acc = items.pop(0)
            else:
                raise RaiseEx("TypeError", "reduce() of empty iterable with no initial value", node)
            for x in items:
                acc = self.call(pos[0], [acc, x], {}, node, env0)
            return acc
        if name in ("itertools.takewhile", "itertools.dropwhile") and len(pos) == 2 and isinstance(pos[1], (list, tuple, StreamVal, HostIter)):
            pred, src = pos

            def gen():
                it_ = iter(src)
                if name.endswith("takewhile"):
                    for x in it_:
                        if not self.decide(self.call(pred, [x], {}, node, env0), node):
                            return
                        yield x
                else:
                    dropping = True
                    for x in it_:
                        if dropping and self.decide(self.call(pred, [x], {}, node, env0), node):
                            continue
                        dropping = False
                        yield x
            return HostIter(gen(), name.split(".")[-1])
        if name == "itertools.starmap" and len(pos) == 2 and isinstance(pos[1], (list, tuple, StreamVal, HostIter)):
            return HostIter((self.call(pos[0], list(x), {}, node, env0) for x in pos[1]), "starmap")
        if name == "itertools.product" and pos and all(isinstance(x, (list, tuple, str)) for x in pos) and set(kw) <= {"repeat"}:
            return [tuple(t) for t in _it.product(*pos, repeat=kw.get("repeat", 1))]
        if name == "itertools.repeat" and len(pos) == 2 and isinstance(pos[1], int):
            return [pos[0]] * pos[1]
        if name == "itertools.repeat" and len(pos) == 1:
            return HostIter(_it.repeat(pos[0]), "repeat")
        if name == "itertools.cycle" and len(pos) == 1 and isinstance(pos[0], (list, tuple)):
            return HostIter(_it.cycle(list(pos[0])), "cycle")
        if name == "itertools.filterfalse" and len(pos) == 2 and isinstance(pos[1], (list, tuple, StreamVal, HostIter)):
            pred_ = pos[0]
            return HostIter((x for x in pos[1] if not (self.decide(self.call(pred_, [x], {}, node, env0), node) if pred_ is not None else self.decide(x, node))), "filterfalse")
        if name == "itertools.accumulate" and pos and isinstance(pos[0], (list, tuple)) and all(isinstance(x, (int, float)) for x in pos[0]) and len(pos) == 1:
            return list(_it.accumulate(pos[0]))
        if name == "itertools.pairwise" and len(pos) == 1 and isinstance(pos[0], (list, tuple, StreamVal, HostIter)):
            items_ = list(pos[0])
            return list(zip(items_, items_[1:]))
        if name == "itertools.zip_longest" and pos and all(isinstance(x, (list, tuple)) for x in pos):
            return [tuple(t) for t in _it.zip_longest(*pos, fillvalue=kw.get("fillvalue"))]
        if name == "itertools.tee" and pos and isinstance(pos[0], (list, tuple, StreamVal, HostIter)):
            items = list(pos[0])
            n_ = pos[1] if len(pos) > 1 else 2
            return tuple(StreamVal(items, "tee") for _k in range(n_))
        if name == "itertools.chain.from_iterable" and len(pos) == 1 and isinstance(pos[0], (StreamVal, HostIter)):
            return HostIter((y for x in pos[0] for y in (x if isinstance(x, (list, tuple, StreamVal, HostIter)) else list(x))), "chain")
        if name == "collections.namedtuple" and len(pos) >= 2 and isinstance(pos[0], str):
            fields = pos[1].replace(",", " ").split() if isinstance(pos[1], str) else list(pos[1])
            tname = pos[0]
            defaults = list(kw.get("defaults") or [])

            def make(i, p, k, n):
                vals = list(p)
                for f_ in fields[len(vals):]:
                    if f_ in k:
                        vals.append(k[f_])
                    elif defaults and len(fields) - fields.index(f_) <= len(defaults):
                        vals.append(defaults[fields.index(f_) - (len(fields) - len(defaults))])
                    else:
                        raise RaiseEx("TypeError", "%s() missing argument %r" % (tname, f_), n)
                if len(vals) != len(fields):
                    raise RaiseEx("TypeError", "%s() takes %d arguments" % (tname, len(fields)), n)
                return NamedTuple(vals, fields, tname)
            t_ = LibFn("namedtuple %s" % tname, make)
            t_.attrs = {"_fields": tuple(fields), "__name__": tname}
            t_.methods = {"_make": lambda i, p, k, n: NamedTuple(list(p[0]), fields, tname)}
            return t_
        return NotImplemented

    def _counter_update(self, c, items):
        if isinstance(items, dict):
            for k, v in items.items():
                c[k] = c.get(k, 0) + v
            return
        if not isinstance(items, (list, tuple, StreamVal, HostIter)):
            raise Unsupported("Counter.update(%r)" % (items,))
        for x in items:
            key = x
            for k in c:
                if k is x or (type(k) is type(x) and k == x):
                    key = k
                    break
            c[key] = c.get(key, 0) + 1

    def _copy_of(self, v):
        if isinstance(v, (dict, list)):
            return copy.deepcopy(v)
        if isinstance(v, Opaque):
            o = Opaque("copy(%s)" % v.name, v.kind)
            o.attrs.update(v.attrs)
            return o
        return v

    def _class_env(self, k):
        """Class-level constants that refer to earlier ones (SQL = "... %d" % _LEVEL): the class body's simple assignments
        evaluated in order."""
        cache = self.__dict__.setdefault("_class_envs", {})
        if k.qual not in cache:
            env = {"__module__": k.module.name}
            out = {}
            cache[k.qual] = out
            n_ev = len(self.trace.events) if getattr(self, "trace", None) is not None else 0
            for n in k.node.body:
                if isinstance(n, ast.FunctionDef) and n.name in k.methods and k.methods[n.name].node is n:
                    # the plain function a later class-level table refers to ({"merge": _resolve_by_merge})
                    env[n.name] = FuncVal(k.methods[n.name])
                    continue
                if isinstance(n, ast.Assign) and len(n.targets) == 1 and isinstance(n.targets[0], ast.Name):
                    try:
                        v = self.eval(n.value, env)
                    except (Unsupported, RaiseEx):
                        continue
                    if isinstance(v, AStr):
                        v = v.simplify()
                    if isinstance(v, (str, int, float, tuple, list, dict)) or v is None:
                        env[n.targets[0].id] = v
                        out[n.targets[0].id] = v
            if getattr(self, "trace", None) is not None:
                del self.trace.events[n_ev:]
        return cache[k.qual]

    def _is_contextmanager(self, expr, env):
        """Is the called function decorated with contextlib.contextmanager?"""
        if not isinstance(expr, ast.Call):
            return False
        try:
            fn = self.eval(expr.func, env) if not isinstance(expr.func, ast.Attribute) else None
        except (Unsupported, RaiseEx):
            fn = None
        f_ = fn.func if isinstance(fn, FuncVal) else getattr(fn, "func", None) if isinstance(fn, BoundMethod) else None
        if f_ is None and isinstance(expr.func, ast.Attribute):
            try:
                base = self.eval(expr.func.value, env)
            except (Unsupported, RaiseEx):
                return False
            if isinstance(base, Opaque):
                f_ = self._class_method(base.kind, expr.func.attr) if base.kind != "obj" else None
                if f_ is None and env.get("__func__") is not None and getattr(env["__func__"], "cls", None) is not None:
                    f_ = self.proj.method(env["__func__"].cls, expr.func.attr)
            elif isinstance(base, ModVal) and base.name in self.proj.modules:
                f_ = self.proj.funcs.get("%s.%s" % (base.name, expr.func.attr))
        if f_ is None:
            return False
        return any(norm(d).split(".")[-1] == "contextmanager" for d in f_.node.decorator_list)

    def _object_iter(self, v, node, run=False):
        """An object of a package class that defines __iter__: what iterating it yields (the generator is evaluated when
        the iteration starts)."""
        if not (isinstance(v, Opaque) and v.attrs and v.kind not in ("obj", "iter", "list", "dict", "set")):
            return None
        m_ = self._class_method(v.kind, "__iter__")
        if m_ is None:
            return None
        if not run:
            return m_
        r_ = self.summaries[m_.qual](self, [], {}, node) if m_.qual in self.summaries else self.call_func(m_, [], {}, self_obj=v, node=node)
        if isinstance(r_, (list, tuple)):
            return GenList(r_)
        if r_ is v:
            nx = self._class_method(v.kind, "__next__")
            if nx is None:
                raise Unsupported("__iter__ of %r returns itself but the class has no __next__" % (v,))

            def gen():
                while True:
                    try:
                        yield self.call_func(nx, [], {}, self_obj=v, node=node)
                    except RaiseEx as e:
                        if e.exc.split(".")[-1] == "StopIteration":
                            return
                        raise
            return HostIter(gen(), "iter(%s)" % v.name)
        return r_

    def _dictlike(self, v):
        """The items of an instance of a package class derived from dict / defaultdict / OrderedDict (kept on the object)."""
        if not (isinstance(v, Opaque) and v.attrs and v.kind not in ("obj", "iter", "list", "dict", "set")):
            return None
        c = self._class_of_kind(v.kind)
        if c is None:
            return None
        names = set()
        for k in self.proj.mro(c):
            for b in k.node.bases:
                names.add(norm(b).split(".")[-1])
        if not names & {"dict", "defaultdict", "OrderedDict"}:
            return None
        return v.attrs.setdefault("__items__", {})

    def _class_of_kind(self, kind):
        cs = [c for q, c in self.proj.classes.items() if q.split(".")[-1] == kind]
        return cs[0] if len(cs) == 1 else None

    def _class_method(self, kind, name):
        cs = [c for q, c in self.proj.classes.items() if q.split(".")[-1] == kind]
        if len(cs) != 1:
            return None
        return self.proj.method(cs[0], name)

    def e_ListComp(self, node, env):
        if len(node.generators) != 1:
            # several generators: the outer ones must range over concrete collections
            out = []

            def rec(i, e_):
                if i == len(node.generators):
                    out.append(self.eval(node.elt, e_))
                    return
                g_ = node.generators[i]
                it_ = self.eval(g_.iter, e_)
                if isinstance(it_, dict):
                    it_ = list(it_.keys())
                if isinstance(it_, str):
                    it_ = list(it_)
                if not isinstance(it_, (list, tuple, StreamVal, HostIter)) or any(isinstance(x, Star) for x in it_ if isinstance(it_, (list, tuple))):
                    raise Unsupported("nested comprehension over %r" % (it_,))
                for x in it_:
                    e2 = dict(e_)
                    self.assign(g_.target, x, e2)
                    if all(self.decide(self.eval(c, e2), c) for c in g_.ifs):
                        rec(i + 1, e2)
            rec(0, env)
            return out
        g = node.generators[0]
        it = self.eval(g.iter, env)
        if isinstance(it, (StreamVal, HostIter)):
            it = list(it)
        if isinstance(it, str):
            it = list(it)          # the characters of a concrete string
        if self._object_iter(it, node) is not None:
            it = list(self._object_iter(it, node, run=True))
        if isinstance(it, (list, tuple, dict)):
            out = []
            for x in (list(it) if not isinstance(it, dict) else list(it.keys())):
                if isinstance(x, Star):
                    raise Unsupported("comprehension over spliced list")
                e2 = dict(env)
                self.assign(g.target, x, e2)
                if all(self.decide(self.eval(c, e2), c) for c in g.ifs):
                    out.append(self.eval(node.elt, e2))
            return out
        if isinstance(it, (Opaque, Sym)):
            if g.ifs:
                # a filtered selection of an unknown collection: a *different* (smaller) unknown collection
                self.trace.events.append(("filtered", it, node))
                return Opaque("%s~filtered" % it.name, getattr(it, "kind", "list") if isinstance(it, Opaque) else "list", getattr(it, "origin", None))
            e2 = dict(env)
            self.assign(g.target, Sym("%s[]" % it.name, "any", None), e2)
            return RepList(self.eval(node.elt, e2), it)
        raise Unsupported("comprehension over %r" % (it,))

    def e_GeneratorExp(self, node, env):
        v = self.e_ListComp(node, env)
        return GenList(v) if type(v) is list else v
    e_SetComp = e_ListComp

    def e_DictComp(self, node, env):
        if len(node.generators) != 1:
            raise Unsupported("nested dict comprehension")
        g = node.generators[0]
        it = self.eval(g.iter, env)
        if not isinstance(it, (list, tuple, dict)):
            raise Unsupported("dict comprehension over %r" % (it,))
        out = {}
        for x in (list(it) if not isinstance(it, dict) else list(it.keys())):
            e2 = dict(env)
            self.assign(g.target, x, e2)
            if all(self.decide(self.eval(c, e2), c) for c in g.ifs):
                out[self.eval(node.key, e2)] = self.eval(node.value, e2)
        return out

    def e_Call(self, node, env):
        if isinstance(node.func, ast.Attribute):
            base = self.eval(node.func.value, env)
            if isinstance(base, BoundMethod) and isinstance(base.base, (Opaque, Sym)):
                base = Opaque("%s.%s" % (base.base.name, base.attr), "obj")
            if isinstance(base, ModVal):
                fn = self.e_Attribute(node.func, env)
            else:
                fn = BoundMethod(base, node.func.attr)
        else:
            fn = self.eval(node.func, env)
        pos = []
        for a in node.args:
            if isinstance(a, ast.Starred):
                v = self.eval(a.value, env)
                if isinstance(v, (StreamVal, HostIter)):
                    v = list(v)
                if not isinstance(v, (list, tuple)):
                    raise Unsupported("*%r" % (v,))
                pos.extend(v)
            else:
                pos.append(self.eval(a, env))
        kw = {}
        for k in node.keywords:
            v = self.eval(k.value, env)
            if k.arg is None:
                if isinstance(v, dict):
                    for kk, vv in v.items():
                        if isinstance(kk, str) and not kk.startswith("__"):
                            kw[kk] = vv
                elif hasattr(v, "as_dict"):
                    for kk, vv in v.as_dict().items():
                        kw[kk] = vv
                elif isinstance(v, (Opaque, Sym)):
                    kw["**"] = v
                else:
                    raise Unsupported("**%r" % (v,))
            else:
                kw[k.arg] = v
        return self.call(fn, pos, kw, node, env)

    def call(self, fn, pos, kw, node, env):
        if isinstance(fn, FuncVal):
            q = fn.func.qual
            if q in self.summaries:
                return self.summaries[q](self, pos, kw, node)
            f_ = fn.func
            if (f_.cls is not None and pos and isinstance(pos[0], Opaque) and f_.params[:1] == ["self"]
                    and not any(isinstance(d, ast.Name) and d.id in ("staticmethod", "classmethod") for d in f_.node.decorator_list)):
                # the plain function of a class body, called with the receiver given explicitly (a class-level dispatch table)
                return self.call_func(f_, pos[1:], kw, self_obj=pos[0], node=node, closure=fn.closure)
            return self.call_func(fn.func, pos, kw, node=node, closure=fn.closure)
        if isinstance(fn, BoundMethod):
            m_ = getattr(fn, "func", None)
            if m_ is not None and isinstance(fn.base, Opaque):
                if m_.qual in self.summaries:
                    return self.summaries[m_.qual](self, pos, kw, node)
                return self.call_func(m_, pos, kw, self_obj=fn.base, node=node)
            return self.call_method(fn.base, fn.attr, pos, kw, node, env)
        if isinstance(fn, Builtin):
            return self.call_builtin(fn.name, pos, kw, node, env)
        if isinstance(fn, TypeVal):
            return self.call_type(fn.name, pos, kw, node)
        if isinstance(fn, ModVal):
            if fn.name in self.ext_summaries:
                return self.ext_summaries[fn.name](self, pos, kw, node)
            if fn.name in ("copy.copy", "copy.deepcopy") and pos:
                return self._copy_of(pos[0])
            r_ = self._lazy_lib(fn.name, pos, kw, node)
            if r_ is not NotImplemented:
                return r_
        if hasattr(fn, "ai_invoke"):
            return fn.ai_invoke(self, pos, kw, node)
        if isinstance(fn, Callback):
            self.trace.events.append(("callback", fn, pos, kw, node))
            return fn.fn(pos, kw) if fn.fn is not None else fn.result
        if isinstance(fn, LambdaVal):
            a = fn.node.args
            names = [x.arg for x in a.posonlyargs + a.args]
            if a.vararg or a.kwarg or a.kwonlyargs or len(pos) > len(names):
                raise Unsupported("lambda signature at line %s" % fn.node.lineno)
            e2 = dict(fn.env)
            for n_, d_ in zip(names[len(names) - len(a.defaults):], a.defaults):
                e2[n_] = self.eval(d_, fn.env)
            for n_, v_ in zip(names, pos):
                e2[n_] = v_
            e2.update(kw)
            return self.eval(fn.node.body, e2)
        if isinstance(fn, Opaque) and fn.attrs and fn.kind not in ("obj", "iter", "list", "dict", "set"):
            m_ = self._class_method(fn.kind, "__call__")
            if m_ is not None:
                return self.call_func(m_, pos, kw, self_obj=fn, node=node)
        if isinstance(fn, (Opaque, Sym, ModVal)):
            self.trace.events.append(("call-opaque", fn, pos, kw, node))
            return Opaque("%s()" % _nm(fn), "obj")
        raise Unsupported("call of %r at line %s" % (fn, node.lineno))

    def call_type(self, name, pos, kw, node):
        if name in ("set", "frozenset", "dict", "list", "tuple") and pos and self._object_iter(pos[0], node) is not None:
            pos = [self._object_iter(pos[0], node, run=True)] + list(pos[1:])
        if name in ("set", "frozenset", "dict") and pos and isinstance(pos[0], (StreamVal, HostIter)):
            pos = [list(pos[0])] + list(pos[1:])
        if name == "int":
            v = pos[0]
            if isinstance(v, int):
                return v
            if isinstance(v, float):
                return int(v)
            if isinstance(v, str):
                try:
                    return int(v)
                except ValueError:
                    raise RaiseEx("ValueError", "int(%r)" % v, node)
            if isinstance(v, Sym):
                return Sym(v.name, "int", v.truthy)
            if isinstance(v, AStr) and len(v.parts) == 1 and isinstance(v.parts[0], Sym):
                s = v.parts[0]
                return Sym(s.name, "int", s.truthy)
            raise Unsupported("int(%r)" % (v,))
        if name == "bool":
            if not pos:
                return False
            return bool(self.decide(pos[0], node))
        if name == "float" and pos:
            if isinstance(pos[0], (int, float)) and not isinstance(pos[0], bool):
                return float(pos[0])
            if isinstance(pos[0], str):
                try:
                    return float(pos[0])
                except ValueError:
                    raise RaiseEx("ValueError", "could not convert string to float: %r" % pos[0], node)
            raise Unsupported("float(%r)" % (pos[0],))
        if name == "str" and pos and isinstance(pos[0], Opaque) and pos[0].attrs:
            for meth in ("__str__", "__unicode__"):
                m_ = self._class_method(pos[0].kind, meth)
                if m_ is not None and m_.qual in self.summaries:
                    return self.summaries[m_.qual](self, [pos[0]], {}, node)
        if name == "str":
            return self.to_str(pos[0]).simplify() if pos else ""
        if name in ("list", "tuple") and pos and isinstance(pos[0], (StreamVal, HostIter)):
            out_ = list(pos[0])
            return out_ if name == "list" else tuple(out_)
        if name == "list":
            if not pos:
                return []
            v = pos[0]
            if isinstance(v, (list, tuple)):
                return list(v)
            if isinstance(v, dict):
                return list(v)
            if isinstance(v, Opaque):
                # list(<a list>) is a copy: a different object
                o = Opaque(("copy(%s)" % v.name) if v.kind == "list" else v.name, "list", v.origin)
                return o
            if isinstance(v, RepList):
                return v
            if v is None or isinstance(v, (bool, int, float, Callback, FuncVal, LambdaVal, Builtin)):
                raise RaiseEx("TypeError", "'%s' object is not iterable" % type(v).__name__, node)
            raise Unsupported("list(%r)" % (v,))
        if name == "tuple":
            v = pos[0] if pos else ()
            if isinstance(v, (list, tuple)):
                return tuple(v)
            if isinstance(v, (Opaque, Sym)):
                return Opaque(v.name, "tuple", getattr(v, "origin", None))
            raise Unsupported("tuple(%r)" % (v,))
        if name in ("list", "tuple") and pos and isinstance(pos[0], (StreamVal, HostIter)):
            out_ = list(pos[0])
            return out_ if name == "list" else tuple(out_)
        if name == "dict" and pos and isinstance(pos[0], CounterVal):
            d = dict(pos[0])
            d.update(kw)
            return d
        if name == "dict":
            d = {}
            if pos:
                v = pos[0]
                if isinstance(v, dict):
                    d.update(v)
                elif hasattr(v, "as_dict"):
                    d.update(v.as_dict())           # dict(row) of a database row: by column name
                elif isinstance(v, (list, tuple)):
                    for k, x in v:
                        d[k] = x
                else:
                    raise Unsupported("dict(%r)" % (v,))
            d.update(kw)
            return d
        if name in ("set", "frozenset"):
            v = pos[0] if pos else []
            if isinstance(v, Opaque):
                return v
            if isinstance(v, (list, tuple)):
                if any(isinstance(x, (Star, RepList)) for x in v):
                    return list(dict.fromkeys(v))
                return _setval(v)
            if isinstance(v, dict):
                return _setval(list(v))
            raise Unsupported("set(%r)" % (v,))
        if name in ("ValueError", "TypeError", "KeyError", "Exception"):
            return Opaque(name, "exc")
        if name in self.proj.classes:
            self.trace.events.append(("construct", name, pos, kw, node))
            is_exc = any(k_.name.endswith(("Error", "Exception", "Warning")) for k_ in self.proj.mro(self.proj.classes[name]))
            if name in self.construct_real or (not is_exc and ("*" in self.construct_real or (self.construct_helpers and name not in DOMAIN_CLASSES))):
                self._n_objects = getattr(self, "_n_objects", 0) + 1
                short = name.split(".")[-1]
                o = Opaque("%s#%d" % (short, self._n_objects), short)
                o.attrs["__class__"] = TypeVal(name)
                init = self.proj.method(self.proj.classes[name], "__init__")
                if init is not None:
                    self.call_func(init, pos, kw, self_obj=o, node=node)
                return o
            return Opaque(name.split(".")[-1], "obj")
        raise Unsupported("constructor %s" % name)

    def call_builtin(self, name, pos, kw, node, env):
        if name in ("any", "all", "sum", "sorted", "max", "min", "enumerate", "zip", "map", "filter", "iter", "next", "reversed") and pos:
            k0 = 1 if name in ("map", "filter") else 0
            for k_ in range(k0, len(pos)):
                if self._object_iter(pos[k_], node) is not None and not (name == "next" and self._class_method(pos[k_].kind, "__next__") is not None):
                    pos = list(pos)
                    pos[k_] = self._object_iter(pos[k_], node, run=True)
        if name == "next" and pos and isinstance(pos[0], Opaque) and pos[0].attrs and self._class_method(pos[0].kind, "__next__") is not None:
            try:
                return self.call_func(self._class_method(pos[0].kind, "__next__"), [], {}, self_obj=pos[0], node=node)
            except RaiseEx as e:
                if e.exc.split(".")[-1] == "StopIteration" and len(pos) > 1:
                    return pos[1]
                raise
        if name == "type" and len(pos) == 1:
            v0 = pos[0]
            if isinstance(v0, (str, AStr)) or (isinstance(v0, Sym) and v0.kind in ("str", "char")):
                return TypeVal("str")
            for py_, nm_ in ((bool, "bool"), (int, "int"), (float, "float"), (list, "list"), (tuple, "tuple"), (dict, "dict")):
                if type(v0) is py_:
                    return TypeVal(nm_)
            if v0 is None:
                return TypeVal("NoneType")
            if isinstance(v0, Opaque) and v0.attrs and self._class_of_kind(v0.kind) is not None:
                return TypeVal(self._class_of_kind(v0.kind).qual)
        if name in ("any", "all", "sum", "sorted", "max", "min") and pos and isinstance(pos[0], (StreamVal, HostIter)):
            pos = [list(pos[0])] + list(pos[1:])        # consumed, as the builtin does
        if name == "super":
            func = env.get("__func__")
            c_ = self.proj.classes.get(pos[0].name) if pos and isinstance(pos[0], TypeVal) else getattr(func, "cls", None)
            o_ = pos[1] if len(pos) > 1 else env.get("self")
            if c_ is None or o_ is None:
                raise Unsupported("super() outside a method")
            return SuperVal(c_, o_)
        if name == "frozenset":
            return self.call_type("set", pos, kw, node)
        if name == "isinstance":
            return self.isinstance(pos[0], pos[1], node)
        if name == "len":
            v = pos[0]
            if isinstance(v, (list, tuple, dict, str)):
                if isinstance(v, (list, tuple)) and any(isinstance(x, Star) for x in v):
                    return Sym("len(spliced)", "int", None)
                return len(v)
            if isinstance(v, Opaque) and v.attrs and self._class_method(v.kind, "__len__") is not None:
                return self.call_func(self._class_method(v.kind, "__len__"), [], {}, self_obj=v, node=node)
            if isinstance(v, (StreamVal, HostIter)):
                raise RaiseEx("TypeError", "object of type 'generator' has no len()", node)
            if isinstance(v, (Opaque, RepList, Sym)):
                nm = "len(%s)" % _nm(v)
                if isinstance(v, Opaque):
                    self._len_source[nm] = v
                return Sym(nm, "int", None)
            if isinstance(v, AStr):
                n_ = Sym("len(str)", "int", True)
                n_.attrs["min"] = sum(len(p_) if isinstance(p_, str) else 1 for p_ in v.parts)
                return n_
            if isinstance(v, Sym) and v.kind == "str":
                n_ = Sym("len(%s)" % v.name, "int", True)
                n_.attrs["min"] = 1
                return n_
            raise Unsupported("len(%r)" % (v,))
        if name == "map":
            f, coll = pos[0], pos[1]
            if isinstance(coll, (StreamVal, HostIter)) and len(pos) == 2:
                return HostIter((self.call(f, [x], {}, node, env) for x in coll), "map(%s)" % coll.name)
            if isinstance(coll, (list, tuple)) and len(pos) == 2:
                return [self.call(f, [x], {}, node, env) for x in coll]
            if isinstance(coll, (list, tuple)) and all(isinstance(c_, (list, tuple)) for c_ in pos[1:]):
                return [self.call(f, list(xs), {}, node, env) for xs in zip(*pos[1:])]
            if isinstance(coll, str) and len(pos) == 2:
                return [self.call(f, [x], {}, node, env) for x in coll]
            if isinstance(coll, Sym) and len(pos) == 2:
                # per element (per character of a symbolic string): like a comprehension over it
                return RepList(self.call(f, [Sym("%s[]" % coll.name, "any", None)], {}, node, env), coll)
            if isinstance(coll, Opaque):
                if isinstance(f, TypeVal) and f.name == "str":
                    return RepList(None, coll)
                # per element of an unknown collection: like a comprehension over it
                self.trace.events.append(("loop-opaque", coll, node))
                return RepList(self.call(f, [Sym("%s[]" % coll.name, "any", None)], {}, node, env), coll)
            raise Unsupported("map(%r)" % (coll,))
        if name == "filter" and len(pos) == 2 and isinstance(pos[1], (list, tuple, StreamVal, HostIter)):
            pred_ = pos[0]
            keep = lambda x: self.decide(self.call(pred_, [x], {}, node, env), node) if pred_ is not None else self.decide(x, node)
            if isinstance(pos[1], (StreamVal, HostIter)):
                return HostIter((x for x in pos[1] if keep(x)), "filter(%s)" % pos[1].name)
            return GenList([x for x in pos[1] if keep(x)])
        if name == "locals":
            return {k: v for k, v in env.items() if not k.startswith("__")}
        if name == "hasattr":
            o, a = pos[0], pos[1]
            if isinstance(a, str):
                if isinstance(o, Callback):
                    return a == "__call__"
                if isinstance(o, (StreamVal, HostIter)):
                    return a in ("__next__", "__iter__", "next")
                if isinstance(o, (str, list, tuple, dict, int, float)) or o is None:
                    return hasattr(o, a)
                if isinstance(o, AStr) or (isinstance(o, Sym) and o.kind == "str"):
                    return hasattr("", a)
                if isinstance(o, (FuncVal, Builtin, TypeVal)) and a == "__call__":
                    return True
            return ACond("hasattr", pos[0], pos[1], node)
        if name in ("any", "all"):
            v = pos[0]
            if isinstance(v, list):
                ts = [self.decide(x, node) for x in v]
                return any(ts) if name == "any" else all(ts)
            raise Unsupported("%s(%r)" % (name, v))
        if name == "sorted" and isinstance(pos[0], (list, tuple)) and all(isinstance(x, (str, int)) for x in pos[0]) and not kw:
            return sorted(pos[0])
        if name in ("max", "min") and len(pos) >= 2 and not kw and all(isinstance(x, (int, float, str)) and not isinstance(x, bool) for x in pos) \
                and len({type(x) is str for x in pos}) == 1:
            return max(pos) if name == "max" else min(pos)
        if name == "sum" and len(pos) >= 1 and isinstance(pos[0], (list, tuple)) and all(isinstance(x, (int, float)) for x in pos[0]):
            return sum(pos[0], *pos[1:])
        if name == "hash" and pos and isinstance(pos[0], (str, int, tuple)):
            return ("hash-of", pos[0])
        if name == "float" and pos:
            if isinstance(pos[0], (int, float)):
                return float(pos[0])
            if isinstance(pos[0], str):
                try:
                    return float(pos[0])
                except ValueError:
                    raise RaiseEx("ValueError", "could not convert string to float: %r" % pos[0], node)
            raise Unsupported("float(%r)" % (pos[0],))
        if name == "open" and pos and self.vfs is not None:
            from .scenario import open_file
            return open_file(self, pos, kw, node)
        if name == "open" and pos:
            # a file object: an opaque line source that remembers the path it was opened on and the mode
            mode = pos[1] if len(pos) > 1 else kw.get("mode", "r")
            fo = Opaque("open(%s)" % _nm(pos[0]), "iter")
            fo.attrs["name"] = pos[0]
            fo.attrs["mode"] = mode
            self.trace.events.append(("open", pos[0], mode, node))
            return fo
        if name == "slice" and 1 <= len(pos) <= 3 and all(x is None or (isinstance(x, int) and not isinstance(x, bool)) for x in pos):
            return slice(*pos)
        if name == "abs" and pos and isinstance(pos[0], (int, float)):
            return abs(pos[0])
        if name in ("max", "min") and len(pos) == 2 and not kw and any(isinstance(x, Sym) for x in pos) and all(isinstance(x, (Sym, int, float)) and not isinstance(x, bool) for x in pos):
            # of two numbers, one symbolic: the comparison that picks the result is a fork
            a_, b_ = pos
            first_wins = self.decide(ACond(">=" if name == "max" else "<=", a_, b_, node), node)
            return a_ if first_wins else b_
        if name == "sorted" and len(pos) == 1 and isinstance(pos[0], Opaque) and pos[0].kind in ("set", "list") and not kw:
            return Opaque(pos[0].name, "list", pos[0].origin)          # the same elements, in some order
        if name in ("sorted", "max", "min") and len(pos) == 1 and isinstance(pos[0], (list, tuple, dict)) and set(kw) <= {"key", "reverse"}:
            items = list(pos[0])
            keyf = kw.get("key")
            keys = [self.call(keyf, [x], {}, node, env) for x in items] if keyf is not None else list(items)
            if not all(_concrete_key(k) for k in keys):
                if name != "sorted":
                    raise Unsupported("%s key is not concrete" % name)
                order = self._symbolic_order(keys, bool(kw.get("reverse", False)), node)
                return [items[i] for i in order]
            try:
                order = sorted(range(len(items)), key=lambda i: keys[i], reverse=bool(kw.get("reverse", False)))  # stable, like the builtin
            except TypeError as e:
                raise RaiseEx("TypeError", str(e), node)       # concrete keys that Python cannot order
            if name == "sorted":
                return [items[i] for i in order]
            if not items:
                raise RaiseEx("ValueError", "%s() arg is an empty sequence" % name, node)
            if name == "max":
                best = 0
                for i in range(1, len(items)):
                    if keys[i] > keys[best]:
                        best = i
                return items[best]
            best = 0
            for i in range(1, len(items)):
                if keys[i] < keys[best]:
                    best = i
            return items[best]
        if name == "enumerate" and isinstance(pos[0], (StreamVal, HostIter)):
            return HostIter(enumerate(pos[0], *pos[1:]), "enumerate(%s)" % pos[0].name)
        if name == "enumerate" and isinstance(pos[0], (list, tuple)):
            return [(i, x) for i, x in enumerate(pos[0], *pos[1:])]
        if name == "next" and pos and isinstance(pos[0], GenList):
            if pos[0]:
                return pos[0].pop(0)
            if len(pos) > 1:
                return pos[1]
            raise RaiseEx("StopIteration", "", node)
        if name == "next" and pos and isinstance(pos[0], (StreamVal, HostIter)):
            try:
                return next(pos[0])
            except StopIteration:
                if len(pos) > 1:
                    return pos[1]
                raise RaiseEx("StopIteration", "", node)
        if name == "zip" and any(isinstance(x, (StreamVal, HostIter)) for x in pos):
            return HostIter(zip(*pos), "zip")
        if name == "zip" and all(isinstance(x, (list, tuple)) for x in pos):
            return [tuple(t) for t in zip(*pos)]
        if name == "zip" and pos and any(isinstance(x, (list, tuple)) for x in pos) and all(isinstance(x, (list, tuple, Opaque, Sym)) for x in pos):
            # an unknown sequence zipped with known ones: as long as the shortest known one, its items named by position
            n_ = min(len(x) for x in pos if isinstance(x, (list, tuple)))
            cols = [list(x) if isinstance(x, (list, tuple)) else [Sym("%s[%d]" % (x.name, i_), "any", None) for i_ in range(n_)] for x in pos]
            return [tuple(c[i_] for c in cols) for i_ in range(n_)]
        if name == "issubclass" and len(pos) == 2 and isinstance(pos[0], TypeVal):
            names_ = [x.name for x in pos[1]] if isinstance(pos[1], tuple) else [getattr(pos[1], "name", None)]
            c_ = self.proj.classes.get(pos[0].name)
            if c_ is not None:
                return any(k.qual in names_ or k.name in [n_.split(".")[-1] for n_ in names_ if n_] for k in self.proj.mro(c_))
            return pos[0].name in names_
        if name == "reversed" and pos and isinstance(pos[0], (list, tuple)):
            return list(reversed(pos[0]))
        if name == "divmod" and len(pos) == 2 and all(isinstance(x, int) and not isinstance(x, bool) for x in pos) and pos[1] != 0:
            return divmod(pos[0], pos[1])
        if name == "getattr" and pos and isinstance(pos[0], ModVal) and isinstance(pos[1], str):
            fake = ast.Attribute(value=ast.Name(id="_", ctx=ast.Load()), attr=pos[1], ctx=ast.Load())
            env2 = dict(env)
            env2["_"] = pos[0]
            ast.copy_location(fake, node)
            ast.copy_location(fake.value, node)
            return self.e_Attribute(fake, env2)
        if name == "getattr" and pos and isinstance(pos[0], Opaque) and isinstance(pos[1], str) and pos[1] not in pos[0].attrs:
            # a method of the object's class, looked up by name
            o_ = pos[0]
            func_ = env.get("__func__")
            c_ = getattr(func_, "cls", None) if o_.name in ("self", "cls") else None
            m_ = self.proj.method(c_, pos[1]) if c_ is not None else (self._class_method(o_.kind, pos[1]) if o_.attrs else None)
            if m_ is not None and any(isinstance(d, ast.Name) and d.id == "property" for d in m_.node.decorator_list):
                return self.call_func(m_, [], {}, self_obj=o_, node=node)
            if m_ is not None:
                return BoundMethod(o_, pos[1])
            # a name the class never binds (no method, no class constant, no `self.<name> = ...` anywhere along the MRO):
            # getattr's default, or AttributeError
            if c_ is None and o_.kind != "obj":
                cs_ = [k_ for q_, k_ in self.proj.classes.items() if q_.split(".")[-1] == o_.kind]
                c_ = cs_[0] if len(cs_) == 1 else None
            if c_ is not None and pos[1].startswith("_") is not None:
                bound = False
                for k_ in self.proj.mro(c_):
                    for n_ in ast.walk(k_.node):
                        if isinstance(n_, ast.Attribute) and n_.attr == pos[1] and isinstance(n_.ctx, ast.Store):
                            bound = True
                        if isinstance(n_, (ast.Assign, ast.AnnAssign)) and n_ in k_.node.body:
                            tg_ = n_.targets if isinstance(n_, ast.Assign) else [n_.target]
                            if any(isinstance(t_, ast.Name) and t_.id == pos[1] for t_ in tg_):
                                bound = True
                if not bound:
                    if len(pos) > 2:
                        return pos[2]
                    raise RaiseEx("AttributeError", "%r object has no attribute %r" % (c_.name, pos[1]), node)
        if name == "getattr":
            o, a = pos[0], pos[1]
            if isinstance(o, (Opaque, Sym)) and isinstance(a, str):
                if a in o.attrs:
                    return o.attrs[a]
                return Sym("%s.%s" % (o.name, a), "any", None)
            raise Unsupported("getattr(%r, %r)" % (o, a))
        if name == "vars" and len(pos) == 1 and isinstance(pos[0], Opaque):
            # the instance dictionary itself: stores through it are stores into the object
            return pos[0].attrs
        if name == "callable" and pos:
            return isinstance(pos[0], (Callback, FuncVal, LambdaVal, Builtin, TypeVal))
        if name == "setattr":
            o, a, v = pos[0], pos[1], pos[2]
            if isinstance(o, (Opaque, Sym)) and isinstance(a, str):
                o.attrs[a] = v
                self.trace.events.append(("setattr", o, a, v, node))
                return None
            raise Unsupported("setattr(%r, %r, ...)" % (o, a))
        if name in ("ord", "chr", "hex"):
            v = pos[0]
            if isinstance(v, (Sym, AStr)):
                nm = v.name if isinstance(v, Sym) else v.render()
                return Sym("%s(%s)" % (name, nm), "int" if name == "ord" else "str", True)
            return {"ord": ord, "chr": chr, "hex": hex}[name](v)
        if name == "range" and pos and all(isinstance(x, int) and not isinstance(x, bool) for x in pos):
            r_ = range(*pos)
            if len(r_) > 100000:
                return r_          # only membership tests make sense on it
            return list(r_)
        if name == "iter":
            if isinstance(pos[0], (list, tuple)) and not isinstance(pos[0], SetVal):
                return StreamVal(pos[0], "iter(list)")      # one-shot, like the real list iterator
            return pos[0]
        if name == "format" and pos:
            spec = pos[1] if len(pos) > 1 else ""
            if not isinstance(spec, str):
                raise Unsupported("format() with an abstract specification")
            return self.str_format(as_astr("{:%s}" % spec), [pos[0]], {}, node)
        if name == "print":
            return None
        raise Unsupported("builtin %s%r at line %s" % (name, tuple(pos), node.lineno))

    def isinstance(self, v, t, node):
        names = [x.name for x in t] if isinstance(t, tuple) else [t.name]
        res = None
        for n in names:
            short = n.split(".")[-1]
            if short == "str":
                if isinstance(v, (str, AStr)) or (isinstance(v, Sym) and v.kind == "str"):
                    return True
                if isinstance(v, Sym) and v.kind == "any":
                    res = "?"
            elif short in ("list", "tuple", "dict", "int"):
                py = {"list": list, "tuple": tuple, "dict": dict, "int": int}[short]
                if isinstance(v, py) and not isinstance(v, bool):
                    return True
                if isinstance(v, Sym) and v.kind == short:
                    return True
                if isinstance(v, Sym) and v.kind == "any":
                    res = "?"
            else:
                if isinstance(v, Sym) and v.kind == short:
                    return True
                if isinstance(v, Opaque) and (v.name == short or v.kind == short):
                    return True
                if isinstance(v, Opaque):
                    # an object of a package class: consult the class table
                    cs = [c for q, c in self.proj.classes.items() if q.split(".")[-1] == v.kind]
                    if len(cs) == 1 and any(k.name == short for k in self.proj.mro(cs[0])):
                        return True
                if isinstance(v, Sym) and v.kind == "any":
                    res = "?"
        if res == "?":
            return ACond("isinstance", v, tuple(names), node)
        return False

    def list_extend(self, lst, v):
        if isinstance(v, (list, tuple)):
            lst.extend(v)
        elif isinstance(v, (Opaque, RepList)):
            lst.append(Star(v))
        elif isinstance(v, Sym):
            lst.append(Star(v))
        elif isinstance(v, (str,)):
            lst.extend(list(v))
        elif isinstance(v, HostIter) or isinstance(v, (set, frozenset, dict)):
            lst.extend(list(v))
        else:
            raise Unsupported("extend with %r" % (v,))

    def call_method(self, base, attr, pos, kw, node, env):
        if hasattr(base, "ai_call"):
            # a host object of the analysis (database connection / cursor, in-memory file): its own model of the method
            return base.ai_call(self, attr, pos, kw, node)
        if attr == "__getitem__" and len(pos) == 1 and not kw:
            return self._getitem(base, pos[0], node, env)
        if isinstance(base, TypeVal) and base.name in self.proj.classes:
            m_ = self.proj.method(self.proj.classes[base.name], attr)
            if m_ is not None:
                decs = [d.id for d in m_.node.decorator_list if isinstance(d, ast.Name)]
                if m_.qual in self.summaries:
                    return self.summaries[m_.qual](self, pos, kw, node)
                if "classmethod" in decs:
                    return self.call_func(m_, pos, kw, self_obj=base, node=node)
                if "staticmethod" in decs:
                    return self.call_func(m_, pos, kw, node=node)
                if pos and isinstance(pos[0], Opaque):
                    return self.call_func(m_, pos[1:], kw, self_obj=pos[0], node=node)     # Class.method(obj, ...)
        if isinstance(base, TypeVal) and base.name == "dict" and attr == "fromkeys" and pos and isinstance(pos[0], (list, tuple, StreamVal, HostIter)):
            out = {}
            for k_ in pos[0]:
                out.setdefault(k_, pos[1] if len(pos) > 1 else None)
            return out
        if isinstance(base, TypeVal) and base.name in ("str", "list", "dict", "tuple") and pos:
            # unbound method of a builtin type: str.strip(x) == x.strip()
            return self.call_method(pos[0], attr, pos[1:], kw, node, env)
        # ---- strings
        if isinstance(base, (str, AStr)) or (isinstance(base, Sym) and base.kind == "str" and attr in _STR_METHODS):
            s = as_astr(base)
            if attr == "format":
                return self.str_format(s, pos, kw, node)
            if attr == "join":
                return self.str_join(s, pos[0])
            if attr == "lower":
                return s.map_literals(str.lower)
            if attr == "upper":
                return s.map_literals(str.upper)
            if attr == "count":
                return sum(p.count(pos[0]) for p in s.parts if isinstance(p, str))
            if attr == "replace":
                a, b = pos[0], pos[1]
                if not isinstance(a, str):
                    raise Unsupported("replace with abstract pattern")
                parts = []
                for p in s.parts:
                    if isinstance(p, str):
                        segs = p.split(a)
                        for i, sg in enumerate(segs):
                            if i:
                                parts.append(as_astr(b))
                            parts.append(sg)
                    else:
                        parts.append(p)
                return AStr(parts).simplify()
            if attr == "split":
                return self.str_split(s, pos, node)
            if attr == "splitlines" and not (pos and pos[0]) and not kw:
                # holes are assumed free of line breaks
                lines, cur = [], []
                for p in s.parts:
                    if isinstance(p, str):
                        segs = p.replace("\r\n", "\n").replace("\r", "\n").split("\n")
                        cur.append(segs[0])
                        for sg in segs[1:]:
                            lines.append(AStr(cur).simplify())
                            cur = [sg]
                    else:
                        cur.append(p)
                last = AStr(cur).simplify()
                if not (isinstance(last, str) and last == "") and not (isinstance(last, AStr) and not last.parts):
                    lines.append(last)
                return lines
            if attr in ("partition", "rpartition") and pos:
                return self.str_partition(s, pos[0], last=(attr == "rpartition"))
            if attr in ("find", "rfind", "index", "rindex") and pos and isinstance(pos[0], str) and len(pos) == 1:
                if s.is_concrete():
                    r_ = getattr(s.literal(), attr.replace("index", "find"))(pos[0])
                else:
                    r_ = -1
                    rng = range(len(s.parts) - 1, -1, -1) if attr.startswith("r") else range(len(s.parts))
                    for i_ in rng:
                        if isinstance(s.parts[i_], str):
                            j_ = s.parts[i_].rfind(pos[0]) if attr.startswith("r") else s.parts[i_].find(pos[0])
                            if j_ >= 0:
                                r_ = PosVal(s.render(), i_, j_)
                                break
                if r_ == -1 and attr.endswith("index"):
                    raise RaiseEx("ValueError", "substring not found", node)
                return r_
            if attr in ("strip", "rstrip", "lstrip"):
                if s.is_concrete():
                    return getattr(s.literal(), attr)(*pos)
                parts = list(s.parts)
                if attr in ("strip", "lstrip") and isinstance(parts[0], str):
                    parts[0] = parts[0].lstrip(*pos)
                if attr in ("strip", "rstrip") and isinstance(parts[-1], str):
                    parts[-1] = parts[-1].rstrip(*pos)
                return AStr(parts).simplify()
            if attr in ("startswith", "endswith"):
                if s.is_concrete():
                    return getattr(s.literal(), attr)(pos[0])
                pre = pos[0]
                if isinstance(pre, str) and pre and s.parts:
                    edge = s.parts[0] if attr == "startswith" else s.parts[-1]
                    if isinstance(edge, str) and len(edge) >= len(pre):
                        return getattr(edge, attr)(pre)
                    ch = pre[0] if attr == "startswith" else pre[-1]
                    if not isinstance(edge, str) and ch in self.hole_free_of:
                        return False   # holes are free of the structural characters
                return ACond(attr, base, pos[0], node)
            if attr == "encode" or attr == "decode":
                return base
            raise Unsupported("str method %s" % attr)
        # ---- sets
        if isinstance(base, SetVal):
            def items_(v):
                if isinstance(v, (list, tuple)):
                    return list(v)
                if isinstance(v, dict):
                    return list(v)
                raise Unsupported("set operation with %r" % (v,))
            if attr == "add":
                base.add_(pos[0])
                return None
            if attr == "update":
                for a_ in pos:
                    for x in items_(a_):
                        base.add_(x)
                return None
            if attr == "union":
                out = _setval(base)
                for a_ in pos:
                    for x in items_(a_):
                        out.add_(x)
                return out
            if attr == "difference":
                other = [x for a_ in pos for x in items_(a_)]
                return _setval([x for x in base if not any(x is y or (type(x) is type(y) and x == y) for y in other)])
            if attr == "intersection":
                other = [x for a_ in pos for x in items_(a_)]
                return _setval([x for x in base if any(x is y or (type(x) is type(y) and x == y) for y in other)])
            if attr == "discard":
                for y in list(base):
                    if y is pos[0] or (type(y) is type(pos[0]) and y == pos[0]):
                        base.remove(y)
                return None
            if attr == "copy":
                return _setval(base)
            raise Unsupported("set method %s" % attr)
        # ---- lists
        if isinstance(base, list):
            if attr == "append":
                base.append(pos[0])
                return None
            if attr == "extend":
                self.list_extend(base, pos[0])
                return None
            if attr == "index":
                try:
                    return base.index(pos[0])
                except ValueError:
                    raise RaiseEx("ValueError", "%r is not in list" % (pos[0],), node)
            if attr == "copy":
                return list(base)
            if attr == "clear":
                del base[:]
                return None
            if attr == "pop":
                return base.pop(*pos)
            if attr == "insert":
                base.insert(pos[0], pos[1])
                return None
            if attr == "sort":
                keyf = kw.get("key")
                rev = bool(kw.get("reverse", False))
                if keyf is None:
                    base.sort(reverse=rev)
                else:
                    keys = [self.call(keyf, [x], {}, node, env) for x in base]
                    if not all(_concrete_key(k) for k in keys):
                        order = self._symbolic_order(keys, rev, node)
                    else:
                        order = sorted(range(len(base)), key=lambda i: keys[i], reverse=rev)
                    base[:] = [base[i] for i in order]
                return None
            if attr == "__contains__" and len(pos) == 1:
                return self.contains(base, pos[0], node)
            if attr == "__len__" and not pos:
                return len(base)
            if attr == "__iter__" and not pos:
                return StreamVal(base, "iter(list)")
            raise Unsupported("list method %s" % attr)
        if isinstance(base, tuple):
            if attr == "index":
                return base.index(pos[0])
            if attr == "count":
                return base.count(pos[0])
        if isinstance(base, CounterVal) and attr == "update":
            for a_ in pos:
                self._counter_update(base, a_)
            return None
        if isinstance(base, CounterVal) and attr == "most_common":
            ranked = sorted(base.items(), key=lambda kv: -kv[1])
            return ranked[:pos[0]] if pos and isinstance(pos[0], int) else ranked
        if isinstance(base, dict) and attr == "move_to_end" and pos:
            if pos[0] not in base:
                raise RaiseEx("KeyError", repr(pos[0]), node)
            last = pos[1] if len(pos) > 1 else kw.get("last", True)
            v_ = base.pop(pos[0])
            if last:
                base[pos[0]] = v_
            else:
                rest = list(base.items())
                base.clear()
                base[pos[0]] = v_
                base.update(rest)
            return None
        if isinstance(base, dict) and attr == "popitem":
            if not base:
                raise RaiseEx("KeyError", "popitem(): dictionary is empty", node)
            last = pos[0] if pos else kw.get("last", True)
            k_ = list(base)[-1 if last else 0]
            return (k_, base.pop(k_))
        if isinstance(base, dict) and attr == "clear" and not pos:
            base.clear()
            return None
        if isinstance(base, (list, tuple, dict)) and attr == "__contains__" and len(pos) == 1:
            return self.contains(base, pos[0], node)
        if isinstance(base, dict):
            if attr == "get":
                hit = self._sym_lookup(base, pos[0], node) if pos else None
                if hit is not None:
                    return hit[1] if hit[0] == "hit" else (pos[1] if len(pos) > 1 else None)
                return base.get(pos[0], pos[1] if len(pos) > 1 else None)
            if attr == "items":
                return list(base.items())
            if attr == "keys":
                return list(base.keys())
            if attr == "values":
                return list(base.values())
            if attr == "update":
                if pos:
                    base.update(pos[0])
                base.update(kw)
                return None
            if attr == "setdefault":
                return base.setdefault(pos[0], pos[1] if len(pos) > 1 else None)
            if attr == "pop":
                return base.pop(*pos)
            if attr == "copy":
                return dict(base)
            raise Unsupported("dict method %s" % attr)
        if isinstance(base, RegexVal):
            if pos and isinstance(pos[0], AStr):
                pos = [pos[0].simplify()] + list(pos[1:])
            if attr in ("finditer", "findall", "split", "sub", "subn") and pos and all(isinstance(x, str) for x in pos[(1 if attr.startswith("sub") else 0):(2 if attr.startswith("sub") else 1)]):
                import re as _re
                rx = _re.compile(base.pattern)
                if attr == "finditer":
                    return GenList([MatchVal(m_) for m_ in rx.finditer(pos[0])])
                if attr == "findall":
                    return rx.findall(pos[0])
                if attr == "split":
                    return rx.split(pos[0], *[x for x in pos[1:2] if isinstance(x, int)])
                repl = pos[0]
                if isinstance(repl, str):
                    out_ = rx.subn(repl, pos[1], *[x for x in pos[2:3] if isinstance(x, int)])
                else:
                    out_ = rx.subn(lambda m_: self.to_py_str(self.call(repl, [MatchVal(m_)], {}, node, env)), pos[1])
                return out_[0] if attr == "sub" else out_
            if attr in ("match", "search", "fullmatch") and pos:
                import re as _re
                subj = pos[0]
                if isinstance(subj, str):
                    m_ = getattr(_re.compile(base.pattern), attr)(subj)
                    return MatchVal(m_) if m_ is not None else None
                if isinstance(subj, AStr):
                    # holes stand for at least one non-structural character: decided when a word-like and a
                    # non-word representative agree, otherwise the outcome depends on the value's content (fork)
                    outs = []
                    for filler in ("\x00", "w"):
                        lit = ""
                        for p_ in subj.parts:
                            lit += p_ if isinstance(p_, str) else filler
                        outs.append(getattr(_re.compile(base.pattern), attr)(lit) is not None)
                    if outs[0] == outs[1]:
                        if not outs[0]:
                            return None
                        # the match object: groups are cut out of the text with each hole kept whole (a private marker per hole)
                        holes = [p_ for p_ in subj.parts if not isinstance(p_, str)]
                        lit = "".join(p_ if isinstance(p_, str) else chr(0xE000 + holes.index(p_)) for p_ in subj.parts)
                        m_ = getattr(_re.compile(base.pattern), attr)(lit)
                        if m_ is not None:
                            return SymMatch(m_, holes)
                        return True
                    return ACond("re." + attr, base.pattern, subj, node)
                if isinstance(subj, Sym):
                    return getattr(_re.compile(base.pattern), attr)("\x00") is not None
            raise Unsupported("regex method %s" % attr)
        if isinstance(base, ModVal):
            full = "%s.%s" % (base.name, attr)
            if full in self.ext_summaries:
                return self.ext_summaries[full](self, pos, kw, node)
            if full in ("copy.copy", "copy.deepcopy") and pos:
                return self._copy_of(pos[0])
            r_ = self._lazy_lib(full, pos, kw, node)
            if r_ is not NotImplemented:
                return r_
        # ---- opaque receivers
        av_ = base.attrs.get(attr) if isinstance(base, (Opaque, Sym)) else None
        if isinstance(base, (Opaque, Sym)) and (isinstance(av_, (Callback, FuncVal, LambdaVal, Builtin, TypeVal, BoundMethod)) or hasattr(av_, "ai_invoke")
                                                or (isinstance(av_, Opaque) and av_.attrs and av_.kind not in ("obj", "iter", "list", "dict", "set")
                                                    and self._class_method(av_.kind, "__call__") is not None)):
            # an attribute holding a callable (self.transform)
            return self.call(base.attrs[attr], pos, kw, node, env)
        if self._dictlike(base) is not None and self._class_method(base.kind, attr) is None and attr in (
                "get", "setdefault", "pop", "items", "keys", "values", "update", "clear", "copy", "__contains__", "popitem", "move_to_end"):
            # inherited from dict: acts on the object's items
            if attr == "get" and pos and pos[0] not in self._dictlike(base) and self._class_method(base.kind, "__missing__") is not None and False:
                pass
            return self.call_method(self._dictlike(base), attr, pos, kw, node, env)
        if isinstance(base, Opaque) and base.attrs and base.name not in ("self", "cls") and base.kind not in ("obj", "iter", "list", "dict", "set"):
            # an object of a package class carrying its fields: run the class's own method on it
            m_ = self._class_method(base.kind, attr)
            if m_ is None and attr == "get" and pos and self._class_method(base.kind, "__getitem__") is not None:
                # Mapping mixin: get(k, default) is self[k] with KeyError turned into the default
                try:
                    return self.call_func(self._class_method(base.kind, "__getitem__"), [pos[0]], {}, self_obj=base, node=node)
                except RaiseEx as e_:
                    if e_.exc != "KeyError":
                        raise
                    return pos[1] if len(pos) > 1 else kw.get("default")
            if m_ is not None and not any(isinstance(d, ast.Name) and d.id == "property" for d in m_.node.decorator_list):
                q_ = m_.qual
                if q_ in self.summaries:
                    return self.summaries[q_](self, [base] + list(pos), kw, node)
                return self.call_func(m_, pos, kw, self_obj=base, node=node)
            if m_ is None and attr == "update" and self._class_method(base.kind, "__setitem__") is not None:
                # MutableMapping mixin: update(other, **kw) stores key by key through __setitem__
                setter = self._class_method(base.kind, "__setitem__")
                pairs = []
                for src in list(pos) + ([kw] if kw else []):
                    if isinstance(src, dict):
                        pairs += list(src.items())
                    elif isinstance(src, (list, tuple)):
                        pairs += [tuple(x) for x in src]
                    elif isinstance(src, Opaque) and isinstance(src.attrs.get("_d"), dict):
                        pairs += list(src.attrs["_d"].items())
                    else:
                        raise Unsupported("mapping update from %r" % (src,))
                for k_, v_ in pairs:
                    self.call_func(setter, [k_, v_], {}, self_obj=base, node=node)
                return None
        if isinstance(base, (Opaque, Sym)):
            if isinstance(base, Opaque) and base.name == "self":
                func = env.get("__func__")
                # the receiver's run-time class when the caller named one (template methods), else the defining class
                m = self._class_method(base.kind, attr) if base.kind != "obj" else None
                if m is not None or (func is not None and func.cls is not None and base.kind == "obj"):
                    if m is None:
                        m = self.proj.method(func.cls, attr)
                    if m is not None:
                        q = m.qual
                        if q in self.summaries:
                            return self.summaries[q](self, pos, kw, node)
                        return self.call_func(m, pos, kw, self_obj=base, node=node)
            if attr in ("execute", "executemany", "executescript"):
                self.trace.events.append(("execute", pos[0] if pos else None, pos[1] if len(pos) > 1 else None, attr, node))
                return Opaque("cursor", "iter")
            if attr == "cursor":
                return Opaque("cursor", "iter")
            if attr == "fetchone" and isinstance(base, Opaque) and base.kind == "iter":
                # a row or None: `is None` / truthiness tests on it are undecided
                self.trace.events.append(("call-opaque", base, attr, pos, kw, node))
                return Opaque("%s.fetchone()" % _nm(base), "maybe-row")
            if attr == "split" and isinstance(base, Sym):
                return self.str_split(as_astr(base), pos, node)
            self.trace.events.append(("call-opaque", base, attr, pos, kw, node))
            return Opaque("%s.%s()" % (_nm(base), attr), "obj")
        if isinstance(base, ModVal):
            self.trace.events.append(("call-ext", base.name + "." + attr, pos, kw, node))
            return Opaque("%s.%s()" % (base.name, attr), "obj")
        if isinstance(base, int) and not isinstance(base, bool) and attr in ("bit_length", "bit_count", "__index__", "conjugate") and not pos and not kw:
            return getattr(base, attr)()
        if base is None or isinstance(base, (bool, int, float)):
            if not hasattr(base, attr):
                raise RaiseEx("AttributeError", "%r object has no attribute %r" % (type(base).__name__, attr), node)
        raise Unsupported("method %s on %r at line %s" % (attr, base, node.lineno))

    def str_join(self, sep, coll):
        if isinstance(coll, AStr) and len(coll.parts) == 1 and isinstance(coll.parts[0], Rep) and coll.parts[0].sep == "" \
                and isinstance(coll.parts[0].template, str) and len(coll.parts[0].template) == 1:
            # the characters of "<c>" * len(xs): one <c> per element
            r = coll.parts[0]
            return AStr([Rep(r.over, r.template, sep.literal() if sep.is_concrete() else sep.render())])
        if isinstance(coll, RepList):
            return AStr([Rep(coll.over, coll.template, sep.literal() if sep.is_concrete() else sep.render())])
        if isinstance(coll, Opaque):
            return AStr([Rep(coll, None, sep.literal())])
        if isinstance(coll, AStr) and coll.is_concrete():
            coll = coll.literal()
        if isinstance(coll, str):
            coll = list(coll)                # the characters of a concrete string
        if isinstance(coll, (set, frozenset)) and all(isinstance(x, str) for x in coll):
            coll = sorted(coll)
        if isinstance(coll, (list, tuple)):
            parts = []
            for i, x in enumerate(coll):
                if isinstance(x, Star):
                    raise Unsupported("join over spliced list")
                if i:
                    parts.append(sep)
                parts.append(as_astr(x))
            return AStr(parts).simplify()
        raise Unsupported("join over %r" % (coll,))

    def str_split(self, s, pos, node):
        if not pos or pos[0] is None:
            if s.is_concrete():
                return s.literal().split()
            # holes are assumed free of whitespace: split the literal segments on runs of whitespace
            maxsplit = pos[1] if len(pos) > 1 and isinstance(pos[1], int) and not isinstance(pos[1], bool) and pos[1] >= 0 else None
            if maxsplit is not None:
                # character stream of the string (holes are single non-blank items); after `maxsplit` cuts the rest,
                # leading blanks dropped, is the last piece
                items = []
                for p in s.parts:
                    items.extend(list(p) if isinstance(p, str) else [p])
                pieces, cur, i = [], [], 0
                blank = lambda x: isinstance(x, str) and x.isspace()
                while i < len(items):
                    if len(pieces) == maxsplit:
                        while i < len(items) and blank(items[i]):
                            i += 1
                        if i < len(items):
                            pieces.append(AStr(items[i:]).simplify())
                        i = len(items)
                        cur = []
                        break
                    if blank(items[i]):
                        if cur:
                            pieces.append(AStr(cur).simplify())
                            cur = []
                    else:
                        cur.append(items[i])
                    i += 1
                if cur:
                    pieces.append(AStr(cur).simplify())
                return pieces
            pieces, cur = [], []
            for p in s.parts:
                if isinstance(p, str):
                    i = 0
                    buf = ""
                    for ch in p:
                        if ch.isspace():
                            if buf:
                                cur.append(buf)
                                buf = ""
                            if cur:
                                pieces.append(AStr(cur).simplify())
                                cur = []
                        else:
                            buf += ch
                    if buf:
                        cur.append(buf)
                else:
                    cur.append(p)
            if cur:
                pieces.append(AStr(cur).simplify())
            if len(pos) > 1 and isinstance(pos[1], int):
                raise Unsupported("whitespace split with maxsplit on an abstract string")
            return pieces
        sep = pos[0]
        if not isinstance(sep, str):
            raise Unsupported("split on abstract separator")
        # holes are assumed free of the separator (recorded assumption)
        pieces, cur = [], []
        for p in s.parts:
            if isinstance(p, str):
                segs = p.split(sep)
                cur.append(segs[0])
                for sg in segs[1:]:
                    pieces.append(AStr(cur).simplify())
                    cur = [sg]
            else:
                cur.append(p)
        pieces.append(AStr(cur).simplify())
        if len(pos) > 1 and isinstance(pos[1], int) and 0 <= pos[1] < len(pieces) - 1:
            # maxsplit: the tail stays one piece, separators included
            head, tail = pieces[:pos[1]], pieces[pos[1]:]
            joined = []
            for i_, t_ in enumerate(tail):
                if i_:
                    joined.append(sep)
                joined.append(t_)
            pieces = head + [AStr(joined).simplify()]
        return pieces

    def str_partition(self, s, sep, last=False):
        """str.partition / rpartition on a string with holes (holes are free of the separator)."""
        if not isinstance(sep, str) or not sep:
            raise Unsupported("partition on an abstract separator")
        parts = list(s.parts)
        rng = range(len(parts) - 1, -1, -1) if last else range(len(parts))
        for i in rng:
            p_ = parts[i]
            if isinstance(p_, str):
                j = p_.rfind(sep) if last else p_.find(sep)
                if j >= 0:
                    before = AStr(parts[:i] + [p_[:j]]).simplify()
                    after = AStr([p_[j + len(sep):]] + parts[i + 1:]).simplify()
                    return (before, sep, after)
        whole = s.simplify()
        return ("", "", whole) if last else (whole, "", "")

    def str_format(self, s, pos, kw, node):
        out = []
        auto = 0
        for p in s.parts:
            if not isinstance(p, str):
                out.append(p)
                continue
            i = 0
            n = len(p)
            while i < n:
                ch = p[i]
                if ch == "{":
                    if p[i:i + 2] == "{{":
                        out.append("{")
                        i += 2
                        continue
                    j = p.find("}", i)
                    if j < 0:
                        raise Unsupported("unterminated format field")
                    field = p[i + 1:j]
                    spec = None
                    conv = None
                    if "!" in field:
                        field, conv = field.split("!", 1)
                        if ":" in conv:
                            conv, rest_ = conv.split(":", 1)
                            field = field + ":" + rest_
                        if conv not in ("s", "r"):
                            raise Unsupported("conversion !%s in a format field" % conv)
                    if ":" in field:
                        field, spec = field.split(":", 1)
                    name, attrs = field, []
                    if "." in field:
                        name, *attrs = field.split(".")
                    if name == "":
                        v = pos[auto]
                        auto += 1
                    elif name.isdigit():
                        v = pos[int(name)]
                    else:
                        if name not in kw:
                            raise RaiseEx("KeyError", name, node)
                        v = kw[name]
                    for a in attrs:
                        if isinstance(v, (Sym, Opaque)):
                            v = v.attrs.get(a, Sym("%s.%s" % (v.name, a), "str", True))
                        else:
                            raise Unsupported("format attribute on %r" % (v,))
                    if spec:
                        if isinstance(v, Sym):
                            out.append(Sym("fmt(%s,%s)" % (v.name, spec), "str", True))
                        elif isinstance(v, (int, float, str)) and not isinstance(v, bool):
                            out.append(format(v, spec))
                        else:
                            raise Unsupported("format spec %r applied to %r" % (spec, v))
                    elif conv == "r" and isinstance(v, str):
                        out.append(repr(v))
                    elif conv == "r" and isinstance(v, (Sym, AStr, Opaque)):
                        out.append(Sym("repr(%s)" % (v.name if hasattr(v, "name") else v.render()), "str", True))
                    else:
                        out.append(self.to_str(v))
                    i = j + 1
                elif ch == "}":
                    if p[i:i + 2] == "}}":
                        out.append("}")
                        i += 2
                        continue
                    raise Unsupported("single } in format string")
                else:
                    j = i
                    while j < n and p[j] not in "{}":
                        j += 1
                    out.append(p[i:j])
                    i = j
        return AStr(out).simplify()


class RegexVal:
    """A compiled regular expression known from the source (pattern text)."""

    def __init__(self, pattern):
        self.pattern = pattern


class BoundMethod:
    def __init__(self, base, attr):
        self.base, self.attr = base, attr

    def __repr__(self):
        return "<%r.%s>" % (self.base, self.attr)


_STR_METHODS = {"format", "join", "lower", "upper", "count", "replace", "split", "splitlines", "strip", "rstrip",
                "lstrip", "startswith", "endswith", "encode", "decode", "partition", "rpartition", "find", "rfind", "index", "rindex"}

_OPS = {ast.Eq: "==", ast.NotEq: "!=", ast.Lt: "<", ast.LtE: "<=", ast.Gt: ">", ast.GtE: ">="}


def _concrete_key(k):
    if isinstance(k, (tuple, list)):
        return all(_concrete_key(x) for x in k)
    return isinstance(k, (int, float, str, bool)) or k is None


def _load(target):
    import copy
    t = copy.copy(target)
    t.ctx = ast.Load()
    return t


def _nm(v):
    if isinstance(v, (Sym, Opaque)):
        return v.name
    if isinstance(v, ModVal):
        return v.name
    return repr(v)


def _thaw(v):
    """Folded module constants are shared: hand out copies of mutables."""
    if isinstance(v, list):
        return [_thaw(x) for x in v]
    if isinstance(v, dict):
        return {k: _thaw(x) for k, x in v.items()}
    return v
