"""gffsa -- repository-specific static analysis for daler/gffutils.

Pure standard library.  Nothing in this package imports or executes gffutils;
every check parses the working tree under --root (default /repo) with `ast`.
"""

__all__ = ["AnalysisError"]


class AnalysisError(Exception):
    """The analysis itself cannot run (anchor vanished, construct outside the
    interpreter's subset, instance count below the floor).  Exit code 2."""

import threading as _threading
_threading.stack_size(256 * 1024 * 1024)     # generator bodies of the evaluated code run on threads of their own (deep recursion)
