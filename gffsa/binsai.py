"""E7 -- interval + shift-normal-form abstract interpreter for bins.bins.

Every integer variable carries an interval [lo, hi] and, when it can be
expressed that way, the normal form  ((param - sub) >> sh) + add .  The level
loop is unrolled over the folded OFFSETS; `one` and `fmt` are partitioned over
their finite domains.  Guards refine intervals; an equality between two
non-singleton intervals forks.  Result: every reachable `return` with its
abstract value (an integer or a set described by the ranges added to it).
"""
import ast
import math

from . import AnalysisError
from .util import is_name, call_attr

INF = math.inf


class Form:
    """((var - sub) >> sh) + add ; var None -> constant `add`."""
    __slots__ = ("var", "sub", "sh", "add")

    def __init__(self, var, sub=0, sh=0, add=0):
        self.var, self.sub, self.sh, self.add = var, sub, sh, add
        if self.var is not None and self.sh == 0 and self.add != 0:
            self.sub -= self.add
            self.add = 0

    def key(self):
        return (self.var, self.sub, self.sh, self.add)

    def __eq__(self, o):
        return isinstance(o, Form) and self.key() == o.key()

    def __hash__(self):
        return hash(self.key())

    def __repr__(self):
        if self.var is None:
            return str(self.add)
        s = self.var if self.sub == 0 else "(%s - %d)" % (self.var, self.sub) if self.sub > 0 else "(%s + %d)" % (self.var, -self.sub)
        if self.sh:
            s = "(%s >> %d)" % (s, self.sh)
        if self.add:
            s = "%s + %d" % (s, self.add)
        return s


class AInt:
    def __init__(self, lo, hi, form=None):
        self.lo, self.hi, self.form = lo, hi, form

    def __repr__(self):
        return "[%s, %s]%s" % (self.lo, self.hi, " = %r" % self.form if self.form is not None else "")

    @staticmethod
    def const(v):
        return AInt(v, v, Form(None, add=v))

    def is_const(self):
        return self.lo == self.hi


class ASet:
    def __init__(self):
        self.consts = set()
        self.ranges = []  # (lo AInt, hi_exclusive AInt)

    def copy(self):
        s = ASet()
        s.consts = set(self.consts)
        s.ranges = list(self.ranges)
        return s

    def __repr__(self):
        return "set(%s + %s)" % (sorted(self.consts), ["range(%r, %r)" % (a.form, b.form) for a, b in self.ranges])


class Ret:
    def __init__(self, value, node, path):
        self.value, self.node, self.path = value, node, path


class Unsup(AnalysisError):
    pass


def _shr(v, k):
    if v in (INF, -INF):
        return v
    return v >> k


class BinsInterp:
    def __init__(self, ctx, func, consts):
        self.ctx, self.func, self.consts = ctx, func, consts
        self.returns = []
        self.level_events = []  # (level index, kind, payload)
        self.depth = 0

    def run(self, fmt, one, start_iv=(-INF, INF), stop_iv=(-INF, INF)):
        p = self.func.params
        env = {
            p[0]: AInt(start_iv[0], start_iv[1], Form("start")),
            p[1]: AInt(stop_iv[0], stop_iv[1], Form("stop")),
        }
        if len(p) > 2:
            env[p[2]] = fmt
        if len(p) > 3:
            env[p[3]] = one
        self.returns = []
        self.fell_through = []
        self.block(self.func.node.body, env, [])
        return self.returns

    # ------------------------------------------------------------ execute
    def block(self, stmts, env, path):
        """Returns list of (env, path) continuing after the block."""
        states = [(env, path)]
        for st in stmts:
            nxt = []
            for e, p in states:
                nxt.extend(self.stmt(st, e, p))
            states = nxt
            if not states:
                break
        return states

    # ------------------------------------------------- forks inside statements
    def _module_callee(self, call):
        if not isinstance(call, ast.Call):
            return None
        fs, _d = self.ctx.proj.resolve_call(call, self.func)
        if len(fs) == 1 and fs[0].module is self.func.module and fs[0].qual != self.func.qual:
            return fs[0]
        return None

    def inline(self, call, callee, env):
        """[(value, path suffix)] of a call to a helper of the same module."""
        if self.depth >= 3:
            raise Unsup("bins.bins: helper calls nested deeper than 3")
        sub = BinsInterp(self.ctx, callee, self.consts)
        sub.depth = self.depth + 1
        params = list(callee.params)
        e2 = {}
        defaults = callee.param_defaults()
        for p_, a in zip(params, call.args):
            e2[p_] = self.eval(a, env)
        for k in call.keywords:
            if k.arg is None:
                raise Unsup("bins.bins: **kwargs in a helper call")
            e2[k.arg] = self.eval(k.value, env)
        for p_ in params:
            if p_ not in e2:
                if defaults.get(p_) is None:
                    raise Unsup("bins.bins: helper %s called without %s" % (callee.name, p_))
                e2[p_] = sub.eval(defaults[p_], {})
        if "__level__" in env:
            e2["__level__"] = env["__level__"]
        sub.returns = []
        rest = sub.block(callee.node.body, e2, [])
        self.ctx.touch(callee)
        out = [(r.value, r.path) for r in sub.returns]
        out += [(None, p_) for _e, p_ in rest]
        return out

    def _forks(self, value, env):
        """Alternatives [(kind, payload, env, path suffix)] for a statement's value expression that needs a fork:
        conditional expressions, boolean-valued tests, helper calls.  None when the value is an ordinary expression."""
        if isinstance(value, ast.IfExp):
            return [("expr", value.body if o else value.orelse, e2, [(ast.unparse(value.test), o)]) for o, e2 in self.branch(value.test, env)]
        if isinstance(value, (ast.Compare, ast.BoolOp)) or (isinstance(value, ast.UnaryOp) and isinstance(value.op, ast.Not)):
            return [("value", o, e2, []) for o, e2 in self.branch(value, env)]
        callee = self._module_callee(value)
        if callee is not None:
            return [("value", v, env, p_) for v, p_ in self.inline(value, callee, env)]
        return None

    def stmt(self, st, env, path):
        if isinstance(st, (ast.Assign, ast.Return)) or (isinstance(st, ast.Expr) and isinstance(st.value, ast.Call)):
            value = st.value
            forks = self._forks(value, env) if value is not None else None
            if forks is not None:
                out = []
                for kind, payload, e2, suffix in forks:
                    if kind == "expr":
                        st2 = ast.copy_location(type(st)(**{k: getattr(st, k) for k in st._fields}), st)
                        st2.value = payload
                        out.extend(self.stmt(st2, e2, path + suffix))
                        continue
                    v = payload
                    if isinstance(st, ast.Return):
                        self.returns.append(Ret(v.copy() if isinstance(v, ASet) else v, st, list(path + suffix)))
                    elif isinstance(st, ast.Assign):
                        e3 = dict(e2)
                        for t in st.targets:
                            self.bind(t, v, e3) if isinstance(t, ast.Tuple) else e3.__setitem__(t.id, v) if isinstance(t, ast.Name) else None
                            if not isinstance(t, (ast.Name, ast.Tuple)):
                                raise Unsup("bins.bins: assignment target %s" % ast.unparse(t))
                        out.append((e3, path + suffix))
                    else:
                        out.append((e2, path + suffix))
                return out
        if isinstance(st, ast.Expr):
            if isinstance(st.value, ast.Constant):
                return [(env, path)]
            if isinstance(st.value, ast.Call):
                env = dict(env)
                self.call_effect(st.value, env)
                return [(env, path)]
            raise Unsup("bins.bins: expression statement %s" % ast.unparse(st))
        if isinstance(st, ast.Return):
            v = self.eval(st.value, env) if st.value is not None else None
            if isinstance(v, ASet):
                v = v.copy()
            self.returns.append(Ret(v, st, list(path)))
            return []
        if isinstance(st, ast.Assign):
            v = self.eval(st.value, env)
            env = dict(env)
            for t in st.targets:
                if not isinstance(t, ast.Name):
                    raise Unsup("bins.bins: assignment target %s" % ast.unparse(t))
                env[t.id] = v
            return [(env, path)]
        if isinstance(st, ast.AugAssign):
            if not isinstance(st.target, ast.Name):
                raise Unsup("bins.bins: augmented target")
            cur = env.get(st.target.id)
            rhs = self.eval(st.value, env)
            env = dict(env)
            if isinstance(cur, ASet) and isinstance(st.op, ast.BitOr):
                s = cur.copy()
                self.set_add(s, rhs)
                env[st.target.id] = s
            else:
                env[st.target.id] = self.binop(st.op, cur, rhs)
            return [(env, path)]
        if isinstance(st, ast.If):
            out = []
            for outcome, e2 in self.branch(st.test, env):
                body = st.body if outcome else st.orelse
                out.extend(self.block(body, e2, path + [(ast.unparse(st.test), outcome)]))
            return out
        if isinstance(st, ast.For):
            it = self.eval(st.iter, env)
            if not isinstance(it, list):
                raise Unsup("bins.bins: loop over %r" % (it,))
            states = [(env, path)]
            for idx, item in enumerate(it):
                nxt = []
                for e, p in states:
                    e = dict(e)
                    e["__level__"] = idx
                    self.bind(st.target, item, e)
                    nxt.extend(self.block(st.body, e, p + [("level %d" % idx, True)]))
                states = nxt
            out = []
            for e, p in states:
                out.extend(self.block(st.orelse, e, p))
            return out
        if isinstance(st, ast.Pass):
            return [(env, path)]
        raise Unsup("bins.bins: statement %s at line %d" % (type(st).__name__, st.lineno))

    def bind(self, target, item, env):
        if isinstance(target, ast.Name):
            env[target.id] = AInt.const(item) if isinstance(item, int) else item
        elif isinstance(target, ast.Tuple) and isinstance(item, (tuple, list)) and len(item) == len(target.elts):
            for t, v in zip(target.elts, item):
                self.bind(t, v, env)
        else:
            raise Unsup("bins.bins: loop target")

    def call_effect(self, call, env):
        if isinstance(call.func, ast.Attribute) and isinstance(call.func.value, ast.Name):
            recv = env.get(call.func.value.id)
            if isinstance(recv, ASet):
                if call.func.attr in ("update", "add") and len(call.args) == 1:
                    v = self.eval(call.args[0], env)
                    s = recv.copy()
                    self.set_add(s, v)
                    # sets are mutable: rebind in place for this path
                    env[call.func.value.id] = s
                    return
        raise Unsup("bins.bins: call statement %s" % ast.unparse(call))

    def set_add(self, s, v):
        if isinstance(v, AInt):
            if v.is_const():
                s.consts.add(v.lo)
            else:
                s.ranges.append((v, AInt(v.lo + 1, v.hi + 1, self._addform(v.form, 1))))
        elif isinstance(v, tuple) and v and v[0] == "range":
            s.ranges.append((v[1], v[2]))
        elif isinstance(v, ASet):
            s.consts |= v.consts
            s.ranges += v.ranges
        elif isinstance(v, list):
            for x in v:
                self.set_add(s, x if not isinstance(x, int) else AInt.const(x))
        else:
            raise Unsup("bins.bins: adding %r to a set" % (v,))

    # ------------------------------------------------------------- values
    def eval(self, node, env):
        if isinstance(node, ast.Constant):
            if isinstance(node.value, bool) or node.value is None or isinstance(node.value, str):
                return node.value
            if isinstance(node.value, int):
                return AInt.const(node.value)
        if isinstance(node, ast.Name):
            if node.id in env:
                return env[node.id]
            if node.id in self.consts:
                v = self.consts[node.id]
                return AInt.const(v) if isinstance(v, int) and not isinstance(v, bool) else v
            raise Unsup("bins.bins: name %s" % node.id)
        if isinstance(node, ast.Subscript):
            base = self.eval(node.value, env)
            key = self.eval(node.slice, env)
            if isinstance(base, dict):
                if isinstance(key, AInt) and key.is_const():
                    key = key.lo
                if key not in base:
                    raise Unsup("bins.bins: key %r" % (key,))
                v = base[key]
                return AInt.const(v) if isinstance(v, int) else v
            if isinstance(base, list) and isinstance(key, AInt) and key.is_const():
                v = base[key.lo]
                return AInt.const(v) if isinstance(v, int) else v
            raise Unsup("bins.bins: subscript %s" % ast.unparse(node))
        if isinstance(node, ast.BinOp):
            return self.binop(node.op, self.eval(node.left, env), self.eval(node.right, env))
        if isinstance(node, ast.UnaryOp) and isinstance(node.op, ast.USub):
            v = self.eval(node.operand, env)
            if isinstance(v, AInt) and v.is_const():
                return AInt.const(-v.lo)
        if isinstance(node, ast.Set):
            s = ASet()
            for e in node.elts:
                self.set_add(s, self.eval(e, env))
            return s
        if isinstance(node, (ast.List, ast.Tuple)):
            return [self.eval(e, env) for e in node.elts]
        if isinstance(node, ast.Call):
            name = call_attr(node)
            if is_name(node.func, "set") or is_name(node.func, "frozenset"):
                s = ASet()
                if node.args:
                    self.set_add(s, self.eval(node.args[0], env))
                return s
            if is_name(node.func, "list") and len(node.args) == 1:
                return self.eval(node.args[0], env)
            if is_name(node.func, "range"):
                args = [self.eval(a, env) for a in node.args]
                if len(args) == 1:
                    return ("range", AInt.const(0), args[0])
                if len(args) == 2:
                    return ("range", args[0], args[1])
            if is_name(node.func, "enumerate") and len(node.args) == 1:
                v = self.eval(node.args[0], env)
                if isinstance(v, list):
                    return [(i, x) for i, x in enumerate(v)]
            if is_name(node.func, "int") and len(node.args) == 1:
                return self.eval(node.args[0], env)
            raise Unsup("bins.bins: call %s" % ast.unparse(node))
        if isinstance(node, ast.IfExp):
            outs = list(self.branch(node.test, env))
            if len(outs) == 1:
                return self.eval(node.body if outs[0][0] else node.orelse, outs[0][1])
            raise Unsup("bins.bins: undecided conditional expression")
        raise Unsup("bins.bins: expression %s" % ast.unparse(node))

    def _addform(self, f, c):
        if f is None:
            return None
        return Form(f.var, f.sub, f.sh, f.add + c)

    def binop(self, op, a, b):
        if not (isinstance(a, AInt) and isinstance(b, AInt)):
            raise Unsup("bins.bins: arithmetic on %r, %r" % (a, b))
        cform = lambda x: x.form is not None and x.form.var is None
        if isinstance(op, ast.Add):
            form = None
            if cform(b) and a.form is not None:
                form = self._addform(a.form, b.form.add)
            elif cform(a) and b.form is not None:
                form = self._addform(b.form, a.form.add)
            return AInt(a.lo + b.lo, a.hi + b.hi, form)
        if isinstance(op, ast.Sub):
            form = None
            if cform(b) and a.form is not None:
                form = self._addform(a.form, -b.form.add)
            return AInt(a.lo - b.hi, a.hi - b.lo, form)
        if isinstance(op, ast.RShift):
            if not b.is_const() or b.lo < 0:
                raise Unsup("bins.bins: shift by non-constant")
            k = b.lo
            form = None
            if a.form is not None and a.form.var is not None and a.form.add == 0:
                form = Form(a.form.var, a.form.sub, a.form.sh + k, 0)
            elif a.form is not None and a.form.var is None:
                form = Form(None, add=a.form.add >> k)
            return AInt(_shr(a.lo, k), _shr(a.hi, k), form)
        if isinstance(op, ast.Mult) and a.is_const() and b.is_const():
            return AInt.const(a.lo * b.lo)
        if isinstance(op, ast.Pow) and a.is_const() and b.is_const() and 0 <= b.lo < 64:
            return AInt.const(a.lo ** b.lo)
        if isinstance(op, ast.FloorDiv) and b.is_const() and b.lo > 0 and (b.lo & (b.lo - 1)) == 0:
            return self.binop(ast.RShift(), a, AInt.const(b.lo.bit_length() - 1))
        raise Unsup("bins.bins: operator %s" % type(op).__name__)

    # ----------------------------------------------------------- branches
    def branch(self, test, env):
        """Yield (outcome, refined env) for each feasible outcome."""
        if isinstance(test, ast.Name) or isinstance(test, ast.Constant):
            v = self.eval(test, env)
            if isinstance(v, bool) or v is None:
                yield (bool(v), env)
                return
            raise Unsup("bins.bins: truth of %r" % (v,))
        if isinstance(test, ast.UnaryOp) and isinstance(test.op, ast.Not):
            for o, e in self.branch(test.operand, env):
                yield (not o, e)
            return
        if isinstance(test, ast.BoolOp):
            is_or = isinstance(test.op, ast.Or)
            # evaluate left to right with short circuit
            states = [(env, None)]
            results = []
            pending = [(env, 0)]
            while pending:
                e, i = pending.pop()
                if i == len(test.values):
                    results.append((not is_or, e))
                    continue
                for o, e2 in self.branch(test.values[i], e):
                    if o == is_or:
                        results.append((is_or, e2))
                    else:
                        pending.append((e2, i + 1))
            for r in results:
                yield r
            return
        if isinstance(test, ast.Compare):
            if len(test.ops) == 1:
                yield from self.compare(test.left, test.ops[0], test.comparators[0], env)
                return
            # chain a < b < c  ==  a < b and b < c
            parts = []
            left = test.left
            for op, right in zip(test.ops, test.comparators):
                parts.append(ast.Compare(left=left, ops=[op], comparators=[right]))
                left = right
            yield from self.branch(ast.BoolOp(op=ast.And(), values=parts), env)
            return
        raise Unsup("bins.bins: condition %s" % ast.unparse(test))

    def compare(self, ln, op, rn, env):
        a, b = self.eval(ln, env), self.eval(rn, env)
        if isinstance(op, (ast.Is, ast.IsNot)) and (a is None or b is None):
            same = a is None and b is None
            yield (same == isinstance(op, ast.Is), env)
            return
        if (a is None or b is None) and isinstance(op, (ast.Eq, ast.NotEq)):
            same = a is None and b is None
            yield (same == isinstance(op, ast.Eq), env)
            return
        if isinstance(a, str) or isinstance(b, str):
            if isinstance(a, str) and isinstance(b, str) and isinstance(op, (ast.Eq, ast.NotEq)):
                yield ((a == b) == isinstance(op, ast.Eq), env)
                return
            raise Unsup("bins.bins: string comparison")
        if not (isinstance(a, AInt) and isinstance(b, AInt)):
            raise Unsup("bins.bins: comparison of %r and %r" % (a, b))
        lname = ln.id if isinstance(ln, ast.Name) and ln.id in env else None
        rname = rn.id if isinstance(rn, ast.Name) and rn.id in env else None

        def with_(e, name, lo, hi, old):
            if name is None:
                return e
            lo2, hi2 = max(old.lo, lo), min(old.hi, hi)
            e = dict(e)
            e[name] = AInt(lo2, hi2, old.form)
            return e

        def feasible(x):
            return x.lo <= x.hi
        # normalise to a < / <= / == test with true/false refinements
        if isinstance(op, (ast.Lt, ast.LtE, ast.Gt, ast.GtE)):
            if isinstance(op, (ast.Gt, ast.GtE)):
                a, b, lname, rname = b, a, rname, lname
                strict = isinstance(op, ast.Gt)
            else:
                strict = isinstance(op, ast.Lt)
            d = 1 if strict else 0
            # true: a <= b - d
            if a.lo + d <= b.hi:
                e = with_(env, lname, -INF, b.hi - d, a)
                e = with_(e, rname, a.lo + d, INF, b)
                yield (True, e) if not isinstance(op, (ast.Gt, ast.GtE)) else (True, e)
            # false: a >= b - d + 1  i.e. a > b - d
            if a.hi >= b.lo - d + 1:
                e = with_(env, lname, b.lo - d + 1, INF, a)
                e = with_(e, rname, -INF, a.hi + d - 1, b)
                yield (False, e)
            return
        if isinstance(op, (ast.Eq, ast.NotEq)):
            eq = isinstance(op, ast.Eq)
            can_eq = not (a.hi < b.lo or b.hi < a.lo)
            must_eq = a.is_const() and b.is_const() and a.lo == b.lo
            if can_eq:
                lo, hi = max(a.lo, b.lo), min(a.hi, b.hi)
                e = with_(env, lname, lo, hi, a)
                e = with_(e, rname, lo, hi, b)
                yield (eq, e)
            if not must_eq:
                yield (not eq, env)
            return
        raise Unsup("bins.bins: comparison operator %s" % type(op).__name__)
