"""E1 -- constant folder.

Pure folding of module-level assignments built from literals, earlier
constants, arithmetic, str.join/format/%, displays, comprehensions over folded
iterables and a handful of builtins.  Anything else is Unfoldable.
"""
import ast

from . import AnalysisError


class Unfoldable(Exception):
    pass


_BINOPS = {
    ast.Add: lambda a, b: a + b,
    ast.Sub: lambda a, b: a - b,
    ast.Mult: lambda a, b: a * b,
    ast.Mod: lambda a, b: a % b,
    ast.Pow: lambda a, b: a ** b if (not isinstance(b, int) or abs(b) < 4096) else _unf(),
    ast.LShift: lambda a, b: a << b if b < 4096 else _unf(),
    ast.RShift: lambda a, b: a >> b,
    ast.FloorDiv: lambda a, b: a // b,
    ast.BitOr: lambda a, b: a | b,
    ast.BitAnd: lambda a, b: a & b,
}


def _unf():
    raise Unfoldable("too large")


_SAFE_BUILTINS = {
    "len": len, "range": range, "chr": chr, "ord": ord, "list": list,
    "dict": dict, "tuple": tuple, "set": set, "enumerate": enumerate,
    "str": str, "int": int, "sorted": sorted, "zip": zip, "min": min,
    "max": max, "sum": sum, "frozenset": frozenset, "bool": bool,
}

_SAFE_METHODS = {
    str: {"join", "format", "lower", "upper", "strip", "split", "replace",
          "startswith", "endswith", "count", "rstrip", "lstrip", "index"},
    list: {"index", "count", "copy"},
    tuple: {"index", "count"},
    dict: {"keys", "values", "items", "get", "copy"},
}


class Folder:
    def __init__(self, proj):
        self.proj = proj
        self._envs = {}
        self._busy = set()

    def env(self, modname):
        if modname in self._envs:
            return self._envs[modname]
        if modname in self._busy or modname not in self.proj.modules:
            return {}
        self._busy.add(modname)
        env = {}
        m = self.proj.modules[modname]
        for st in m.tree.body:
            try:
                if isinstance(st, ast.Assign):
                    v = self.fold(st.value, modname, env)
                    for t in st.targets:
                        if isinstance(t, ast.Name):
                            env[t.id] = v
                        elif isinstance(t, ast.Tuple) and isinstance(v, (tuple, list)) and len(v) == len(t.elts):
                            for tt, vv in zip(t.elts, v):
                                if isinstance(tt, ast.Name):
                                    env[tt.id] = vv
                elif isinstance(st, ast.AugAssign) and isinstance(st.target, ast.Name):
                    if st.target.id in env:
                        op = _BINOPS.get(type(st.op))
                        if op is None:
                            raise Unfoldable("op")
                        env[st.target.id] = op(env[st.target.id], self.fold(st.value, modname, env))
            except Unfoldable:
                for t in getattr(st, "targets", [getattr(st, "target", None)]):
                    if isinstance(t, ast.Name):
                        env.pop(t.id, None)
            except Exception:
                for t in getattr(st, "targets", [getattr(st, "target", None)]):
                    if isinstance(t, ast.Name):
                        env.pop(t.id, None)
        self._busy.discard(modname)
        self._envs[modname] = env
        return env

    def const(self, modname, name):
        """Folded module-level constant or AnalysisError (anchor)."""
        env = self.env(modname)
        if name not in env:
            raise AnalysisError("cannot fold constant %s.%s" % (modname, name))
        return env[name]

    def try_fold(self, node, modname, local=None, default=None):
        try:
            return self.fold(node, modname, local)
        except Unfoldable:
            return default
        except Exception:
            return default

    def fold(self, node, modname, local=None):
        local = local if local is not None else self.env(modname)
        f = lambda n: self.fold(n, modname, local)
        if isinstance(node, ast.Constant):
            return node.value
        if isinstance(node, ast.Name):
            if node.id in local:
                return local[node.id]
            m = self.proj.modules.get(modname)
            if m is not None:
                if local is not self._envs.get(modname) and node.id in self.env(modname):
                    return self.env(modname)[node.id]
                tgt = m.imports.get(node.id)
                if tgt and "." in tgt:
                    mod, _, nm = tgt.rpartition(".")
                    if mod in self.proj.modules and nm in self.env(mod):
                        return self.env(mod)[nm]
            if node.id in ("True", "False", "None"):
                return {"True": True, "False": False, "None": None}[node.id]
            raise Unfoldable(node.id)
        if isinstance(node, ast.Attribute):
            m = self.proj.modules.get(modname)
            if isinstance(node.value, ast.Name) and m is not None:
                tgt = m.imports.get(node.value.id)
                if tgt in self.proj.modules and node.value.id not in local:
                    e = self.env(tgt)
                    if node.attr in e:
                        return e[node.attr]
            raise Unfoldable(ast.dump(node))
        if isinstance(node, (ast.List, ast.Tuple, ast.Set)):
            vals = []
            for e in node.elts:
                if isinstance(e, ast.Starred):
                    vals.extend(f(e.value))
                else:
                    vals.append(f(e))
            if isinstance(node, ast.List):
                return vals
            if isinstance(node, ast.Tuple):
                return tuple(vals)
            return set(vals)
        if isinstance(node, ast.Dict):
            d = {}
            for k, v in zip(node.keys, node.values):
                if k is None:
                    d.update(f(v))
                else:
                    d[f(k)] = f(v)
            return d
        if isinstance(node, ast.BinOp):
            op = _BINOPS.get(type(node.op))
            if op is None:
                raise Unfoldable("binop")
            return op(f(node.left), f(node.right))
        if isinstance(node, ast.UnaryOp):
            v = f(node.operand)
            if isinstance(node.op, ast.USub):
                return -v
            if isinstance(node.op, ast.Not):
                return not v
            if isinstance(node.op, ast.UAdd):
                return +v
            raise Unfoldable("unary")
        if isinstance(node, ast.JoinedStr):
            out = []
            for p in node.values:
                if isinstance(p, ast.Constant):
                    out.append(str(p.value))
                elif isinstance(p, ast.FormattedValue) and p.format_spec is None and p.conversion == -1:
                    out.append(str(f(p.value)))
                else:
                    raise Unfoldable("fstring")
            return "".join(out)
        if isinstance(node, ast.Subscript):
            base = f(node.value)
            if isinstance(node.slice, ast.Slice):
                lo = f(node.slice.lower) if node.slice.lower else None
                hi = f(node.slice.upper) if node.slice.upper else None
                st = f(node.slice.step) if node.slice.step else None
                return base[lo:hi:st]
            return base[f(node.slice)]
        if isinstance(node, (ast.ListComp, ast.GeneratorExp, ast.SetComp)):
            res = []
            self._comp(node.generators, 0, dict(local), modname, lambda env: res.append(self.fold(node.elt, modname, env)))
            return set(res) if isinstance(node, ast.SetComp) else res
        if isinstance(node, ast.DictComp):
            res = {}

            def add(env):
                res[self.fold(node.key, modname, env)] = self.fold(node.value, modname, env)
            self._comp(node.generators, 0, dict(local), modname, add)
            return res
        if isinstance(node, ast.Compare) and len(node.ops) == 1:
            a, b = f(node.left), f(node.comparators[0])
            op = node.ops[0]
            table = {ast.Eq: a == b, ast.NotEq: a != b}
            if type(op) in table:
                return table[type(op)]
            if isinstance(op, ast.In):
                return a in b
            if isinstance(op, ast.NotIn):
                return a not in b
            if isinstance(op, ast.Lt):
                return a < b
            if isinstance(op, ast.LtE):
                return a <= b
            if isinstance(op, ast.Gt):
                return a > b
            if isinstance(op, ast.GtE):
                return a >= b
            raise Unfoldable("cmp")
        if isinstance(node, ast.IfExp):
            return f(node.body) if f(node.test) else f(node.orelse)
        if isinstance(node, ast.Call):
            if isinstance(node.func, ast.Name) and node.func.id == "map" and "map" not in local and len(node.args) >= 2 and not node.keywords \
                    and isinstance(node.args[0], ast.Name) and node.args[0].id in _SAFE_BUILTINS and node.args[0].id not in local:
                seqs = [list(f(a)) for a in node.args[1:]]
                if any(len(x) > 100000 for x in seqs):
                    raise Unfoldable("big")
                return [_SAFE_BUILTINS[node.args[0].id](*xs) for xs in zip(*seqs)]
            if isinstance(node.func, ast.Name) and node.func.id in _SAFE_BUILTINS and node.func.id not in local:
                args = [f(a) for a in node.args]
                kw = {k.arg: f(k.value) for k in node.keywords if k.arg}
                r = _SAFE_BUILTINS[node.func.id](*args, **kw)
                if isinstance(r, (range, enumerate, zip)):
                    r = list(r)
                    if len(r) > 100000:
                        raise Unfoldable("big")
                return r
            if isinstance(node.func, ast.Attribute):
                try:
                    recv = f(node.func.value)
                except Unfoldable:
                    raise
                for typ, names in _SAFE_METHODS.items():
                    if isinstance(recv, typ) and node.func.attr in names:
                        args = [f(a) for a in node.args]
                        kw = {k.arg: f(k.value) for k in node.keywords if k.arg}
                        r = getattr(recv, node.func.attr)(*args, **kw)
                        if type(r).__name__ in ("dict_keys", "dict_values", "dict_items"):
                            r = list(r)
                        return r
            raise Unfoldable("call")
        raise Unfoldable(type(node).__name__)

    def _comp(self, gens, i, env, modname, emit):
        if i == len(gens):
            emit(env)
            return
        g = gens[i]
        it = self.fold(g.iter, modname, env)
        if isinstance(it, str):
            it = list(it)
        for item in it:
            e2 = dict(env)
            self._bind(g.target, item, e2)
            if all(self.fold(c, modname, e2) for c in g.ifs):
                self._comp(gens, i + 1, e2, modname, emit)

    def _bind(self, target, value, env):
        if isinstance(target, ast.Name):
            env[target.id] = value
        elif isinstance(target, (ast.Tuple, ast.List)):
            vals = list(value)
            if len(vals) != len(target.elts):
                raise Unfoldable("unpack")
            for t, v in zip(target.elts, vals):
                self._bind(t, v, env)
        else:
            raise Unfoldable("target")
