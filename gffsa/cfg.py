"""E2 -- statement-level control-flow graph, dominators, post-dominators.

One node per statement; compound statements contribute a header node (the
`if`/`while` test, the `for` iteration, the `with` entry, an `except` clause).
Statements inside a `try` body get an exceptional edge to every handler of
that `try`.  `raise` goes to the innermost handlers when inside a `try` body,
to the RAISE exit otherwise.
"""
import ast

from .model import parents


class Node:
    __slots__ = ("id", "stmt", "kind")

    def __init__(self, id, stmt, kind):
        self.id = id
        self.stmt = stmt
        self.kind = kind

    def __repr__(self):
        ln = getattr(self.stmt, "lineno", "-")
        return "<N%d %s L%s>" % (self.id, self.kind, ln)

    @property
    def lineno(self):
        return getattr(self.stmt, "lineno", None)


class CFG:
    def __init__(self, fnode):
        self.fnode = fnode
        self.nodes = []
        self.succ = {}
        self.pred = {}
        self.by_stmt = {}
        self.entry = self._new(None, "entry")
        self.exit = self._new(None, "exit")
        self.raise_exit = self._new(None, "raise")
        self._loops = []  # (head_id, break_dangling_list)
        self._handlers = []  # list of list of handler ids
        self._finally = []
        out = self._seq(fnode.body, [(self.entry.id, "normal")])
        self._connect(out, self.exit.id)
        self._dom = None
        self._pdom = {}

    # ---------------------------------------------------------------- build
    def _new(self, stmt, kind):
        n = Node(len(self.nodes), stmt, kind)
        self.nodes.append(n)
        self.succ[n.id] = []
        self.pred[n.id] = []
        if stmt is not None:
            self.by_stmt[id(stmt)] = n
        return n

    def _edge(self, a, b, label="normal"):
        if (b, label) not in self.succ[a]:
            self.succ[a].append((b, label))
            self.pred[b].append((a, label))

    def _connect(self, dangling, target):
        for a, label in dangling:
            self._edge(a, target, label)

    def _exc_edges(self, nid):
        if self._handlers:
            for h in self._handlers[-1]:
                self._edge(nid, h, "exc")

    def _seq(self, stmts, dangling):
        for st in stmts:
            dangling = self._stmt(st, dangling)
        return dangling

    def _stmt(self, st, dangling):
        if isinstance(st, ast.If):
            n = self._new(st, "test")
            self._connect(dangling, n.id)
            self._exc_edges(n.id)
            t = self._seq(st.body, [(n.id, "true")])
            f = self._seq(st.orelse, [(n.id, "false")]) if st.orelse else [(n.id, "false")]
            return t + f
        if isinstance(st, (ast.For, ast.AsyncFor, ast.While)):
            n = self._new(st, "loop")
            self._connect(dangling, n.id)
            self._exc_edges(n.id)
            breaks = []
            # the latch collects the ends of the body (keeping their own edge labels) and `continue`
            latch = self._new(None, "latch")
            self._loops.append((latch.id, breaks))
            body_out = self._seq(st.body, [(n.id, "true")])
            self._loops.pop()
            self._connect(body_out, latch.id)
            self._edge(latch.id, n.id, "back")
            out = [(n.id, "false")]
            if st.orelse:
                out = self._seq(st.orelse, out)
            return out + breaks
        if isinstance(st, (ast.With, ast.AsyncWith)):
            n = self._new(st, "with")
            self._connect(dangling, n.id)
            self._exc_edges(n.id)
            return self._seq(st.body, [(n.id, "normal")])
        if isinstance(st, ast.Try) or st.__class__.__name__ == "TryStar":
            hnodes = [self._new(h, "handler") for h in st.handlers]
            has_finally = bool(st.finalbody)
            fin_entry = []
            if has_finally:
                self._finally.append(fin_entry)
            self._handlers.append([h.id for h in hnodes])
            body_out = self._seq(st.body, dangling)
            self._handlers.pop()
            if st.orelse:
                body_out = self._seq(st.orelse, body_out)
            outs = list(body_out)
            for h, hn in zip(st.handlers, hnodes):
                # an exception in the handler itself propagates outward
                outs += self._seq(h.body, [(hn.id, "normal")])
            if has_finally:
                self._finally.pop()
                fout = self._seq(st.finalbody, outs + fin_entry)
                # a finally reached by return/raise continues to the exits
                if fin_entry:
                    for a, label in fout:
                        self._edge(a, self.exit.id, "normal")
                return fout
            return outs
        # ------------------------------------------------ simple statements
        n = self._new(st, "stmt")
        self._connect(dangling, n.id)
        if isinstance(st, ast.Return):
            if self._finally:
                self._finally[-1].append((n.id, "normal"))
            else:
                self._edge(n.id, self.exit.id, "return")
            self._exc_edges(n.id)
            return []
        if isinstance(st, ast.Raise):
            if self._handlers:
                self._exc_edges(n.id)
            elif self._finally:
                self._finally[-1].append((n.id, "exc"))
            else:
                self._edge(n.id, self.raise_exit.id, "raise")
            return []
        if isinstance(st, ast.Break):
            if self._loops:
                self._loops[-1][1].append((n.id, "break"))
            return []
        if isinstance(st, ast.Continue):
            if self._loops:
                self._edge(n.id, self._loops[-1][0], "continue")
            return []
        self._exc_edges(n.id)
        return [(n.id, "normal")]

    # ---------------------------------------------------------------- query
    def node_for(self, astnode):
        """CFG node of the innermost statement of *this* function containing
        `astnode` (None when the node lives in a nested function)."""
        n = astnode
        chain = [n] + list(parents(n))
        inner_def = False
        for p in chain:
            if p is self.fnode:
                break
            if isinstance(p, (ast.FunctionDef, ast.AsyncFunctionDef, ast.Lambda)) and p is not astnode:
                inner_def = True
            if id(p) in self.by_stmt:
                if inner_def and not isinstance(p, (ast.FunctionDef, ast.AsyncFunctionDef)):
                    # p is an outer statement that contains a lambda/def holding astnode
                    return self.by_stmt[id(p)]
                if inner_def:
                    return self.by_stmt[id(p)]
                return self.by_stmt[id(p)]
        return None

    def in_own_body(self, astnode):
        """True when astnode is evaluated by this function itself, not by a
        nested def/lambda."""
        for p in parents(astnode):
            if p is self.fnode:
                return True
            if isinstance(p, (ast.FunctionDef, ast.AsyncFunctionDef, ast.Lambda)):
                return False
        return False

    def _order(self, succ, start):
        seen, order = set(), []
        stack = [(start, iter(succ[start]))]
        seen.add(start)
        while stack:
            nid, it = stack[-1]
            adv = False
            for (m, _l) in it:
                if m not in seen:
                    seen.add(m)
                    stack.append((m, iter(succ[m])))
                    adv = True
                    break
            if not adv:
                order.append(nid)
                stack.pop()
        return order[::-1]

    def _dominators(self, succ, pred, start):
        order = self._order(succ, start)
        reach = set(order)
        dom = {n: set(reach) for n in reach}
        dom[start] = {start}
        changed = True
        while changed:
            changed = False
            for n in order:
                if n == start:
                    continue
                ps = [p for p, _ in pred[n] if p in reach]
                new = set(reach)
                for p in ps:
                    new &= dom[p]
                new.add(n)
                if new != dom[n]:
                    dom[n] = new
                    changed = True
        return dom

    def dominators(self):
        if self._dom is None:
            self._dom = self._dominators(self.succ, self.pred, self.entry.id)
        return self._dom

    def postdominators(self, include_raise=False):
        key = bool(include_raise)
        if key not in self._pdom:
            # virtual sink
            sink = -1
            succ = {n: list(v) for n, v in self.pred.items()}
            pred = {n: list(v) for n, v in self.succ.items()}
            exits = [self.exit.id] + ([self.raise_exit.id] if include_raise else [])
            succ[sink] = [(e, "x") for e in exits]
            pred[sink] = []
            for e in exits:
                pred[e] = pred[e] + [(sink, "x")]
            self._pdom[key] = self._dominators(succ, pred, sink)
        return self._pdom[key]

    def dominates(self, a, b):
        """a dominates b (node ids); unreachable b -> True (vacuous)."""
        d = self.dominators()
        if b not in d:
            return True
        return a in d[b]

    def postdominates(self, a, b, include_raise=False):
        d = self.postdominators(include_raise)
        if b not in d:
            return True
        return a in d[b]

    def reachable(self, start, avoid=(), labels=None, include_start=False):
        avoid = set(avoid)
        seen = set()
        stack = [start]
        while stack:
            n = stack.pop()
            for m, l in self.succ[n]:
                if labels is not None and l not in labels:
                    continue
                if m in seen or m in avoid:
                    continue
                seen.add(m)
                stack.append(m)
        if include_start:
            seen.add(start)
        return seen

    def reachable_nodes(self):
        return self.reachable(self.entry.id, include_start=True)

    def stmts_between(self, a, b):
        """Nodes on some path a ->* b (exclusive)."""
        fwd = self.reachable(a)
        back = set()
        stack = [b]
        while stack:
            n = stack.pop()
            for m, _ in self.pred[n]:
                if m not in back:
                    back.add(m)
                    stack.append(m)
        return (fwd & back) - {a, b}

    def conditions(self, nid):
        """Branch outcomes that hold on EVERY path from the entry to node
        `nid`: [(test expr, bool)].  Covers nesting and early exits alike
        (`if not x: return` makes `x` hold afterwards)."""
        out = []
        dom = self.dominators().get(nid, set())
        for t in sorted(dom):
            n = self.nodes[t]
            if n.kind != "test" or t == nid:
                continue
            tr = [m for m, l in self.succ[t] if l == "true"]
            fa = [m for m, l in self.succ[t] if l == "false"]
            rt, rf = set(), set()
            for m in tr:
                rt |= self.reachable(m, avoid={t}, include_start=True)
            for m in fa:
                rf |= self.reachable(m, avoid={t}, include_start=True)
            if nid in rt and nid not in rf:
                out.append((n.stmt.test, True))
            elif nid in rf and nid not in rt:
                out.append((n.stmt.test, False))
        return out

    def control_conditions(self, nid):
        """Branch decisions (test node id, label) that node `nid` is control
        dependent on, following the chain to the entry: computed structurally
        from the AST nesting of If/loop headers."""
        out = []
        st = self.nodes[nid].stmt
        if st is None:
            return out
        child = st
        for p in parents(st):
            if p is self.fnode:
                break
            if isinstance(p, ast.If):
                if any(child is s for s in p.body):
                    out.append((p, True))
                elif any(child is s for s in p.orelse):
                    out.append((p, False))
            elif isinstance(p, (ast.For, ast.While)):
                if any(child is s for s in p.body):
                    out.append((p, "loop"))
            elif isinstance(p, ast.ExceptHandler):
                out.append((p, "handler"))
            elif isinstance(p, ast.Try):
                if any(child is s for s in p.body):
                    out.append((p, "try"))
            child = p
        return out


def cfg_of(func):
    c = getattr(func, "_cfg", None)
    if c is None:
        c = CFG(func.node)
        func._cfg = c
    return c
