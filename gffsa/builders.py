"""Shared driver for the query builders (make_query, _relation, region):
partition spaces, trace collection, and the placeholder/argument binding of
each generated statement.  Used by C02, C06, C11, C19."""
import itertools

from . import AnalysisError, sql as S
from .absint import Interp, Sym, AStr, Opaque, Star, Rep, RepList, ACond, Unsupported

FEATURE_COLS = ["id", "seqid", "source", "featuretype", "start", "end", "score",
                "strand", "frame", "attributes", "extra", "bin"]
REL_COLS = ["parent", "child", "level"]


def bins_summary(interp, pos, kw, node):
    args = list(pos)
    start = args[0] if args else kw.get("start")
    stop = args[1] if len(args) > 1 else kw.get("stop")
    one = kw.get("one", args[3] if len(args) > 3 else True)
    interp.trace.events.append(("bins", start, stop, one, node))
    if one is False:
        return Opaque("bins", "set", origin=(start, stop))
    return Sym("bin", "int", True)


def interp_for(ctx):
    it = getattr(ctx, "_interp", None)
    if it is None:
        it = Interp(ctx, {"bins.bins": bins_summary})
        ctx._interp = it
        ctx.assume("builder analysis: string inputs are free of the separator characters the builder itself "
                   "splits on; given coordinates are positive integers; falsy-but-given values "
                   "(featuretype=[], strand='', start=0) follow the code's own 'falsy means not given' convention")
    return it


def sym_name(v):
    """Name of the symbolic input an argument value stands for."""
    if isinstance(v, Sym):
        return v.name
    if isinstance(v, AStr) and len(v.parts) == 1 and isinstance(v.parts[0], Sym):
        return v.parts[0].name
    if isinstance(v, Star):
        return "*" + getattr(v.coll, "name", "?")
    if isinstance(v, (str, int)) or v is None:
        return ("const", v)
    return ("?", repr(v))


class BoundQuery:
    """A generated statement with its arguments bound to placeholders."""

    def __init__(self, query, args):
        self.query = query
        self.args = list(args) if isinstance(args, (list, tuple)) else None
        self.problems = []
        self.text = query.render() if isinstance(query, AStr) else (query if isinstance(query, str) else None)
        self.stmt = None
        self.binding = {}  # param index -> arg name
        self.rep_args = []  # (hole name, arg)
        if self.text is None:
            self.problems.append("query is not a string: %r" % (query,))
            return
        if self.args is None:
            self.problems.append("arguments are not a list/tuple: %r" % (args,))
            return
        try:
            self.stmt = S.parse(self.text)
        except S.SQLError as e:
            self.problems.append("generated SQL does not parse: %s :: %s" % (e, " ".join(self.text.split())))
            return
        self._bind()

    def _bind(self):
        toks = S.tokenize(self.text)
        ai = 0
        for t in toks:
            if t.kind == "param":
                if ai >= len(self.args):
                    self.problems.append("placeholder #%d has no argument (%d args)" % (t.val[1], len(self.args)))
                    return
                a = self.args[ai]
                if isinstance(a, Star):
                    self.problems.append("placeholder #%d is bound to the spliced collection %r" % (t.val[1], a))
                    return
                self.binding[t.val[1]] = sym_name(a)
                ai += 1
            elif t.kind == "hole" and t.val.startswith("*"):
                name, _sep, tmpl = (t.val[1:].split("|") + ["", ""])[:3]
                if "?" in tmpl:
                    if ai >= len(self.args) or not isinstance(self.args[ai], Star):
                        self.problems.append("repeated placeholder group %r is not matched by a spliced argument" % t.val)
                        return
                    if getattr(self.args[ai].coll, "name", None) != name:
                        self.problems.append("repeated placeholder group over %s bound to %r" % (name, self.args[ai]))
                        return
                    self.rep_args.append((name, self.args[ai]))
                    ai += 1
        if ai != len(self.args):
            self.problems.append("%d arguments for %d placeholders: extra %r" % (len(self.args), ai, self.args[ai:]))

    # -------------------------------------------------------------- views
    def substituted(self, expr):
        """expr with ('param', i, n) replaced by ('arg', name)."""
        if expr is None or not isinstance(expr, tuple):
            return expr
        if expr[0] == "param":
            return ("arg", self.binding.get(expr[1], ("unbound", expr[1])))
        out = []
        for x in expr:
            if isinstance(x, tuple):
                out.append(self.substituted(x))
            elif isinstance(x, list):
                out.append([self.substituted(y) for y in x])
            else:
                out.append(x)
        return tuple(out)


def col_name(e):
    if e[0] == "col":
        return e[2].lower()
    return None


def classify_conjunct(c):
    """('eq', col, arg) | ('in', col, (args..)) | ('bin', spec) |
    ('coord', expr) | ('join', colA, colB) | ('other', text)"""
    k = c[0]
    if k == "cmp":
        l, r = c[2], c[3]
        if c[1] == "=":
            if l[0] == "col" and r[0] == "col":
                return ("join", _qual(l), _qual(r))
            if l[0] == "col" and r[0] in ("arg", "num", "str") and col_name(l) not in ("start", "end"):
                return ("eq", col_name(l), _argname(r))
            if r[0] == "col" and l[0] in ("arg", "num", "str") and col_name(r) not in ("start", "end"):
                return ("eq", col_name(r), _argname(l))
        if _coord_only(c):
            return ("coord", c)
        return ("other", S.show(c))
    if k == "in" and c[1][0] == "col" and isinstance(c[2], list):
        col = col_name(c[1])
        if col == "bin" and len(c[2]) == 1 and c[2][0][0] == "hole" and c[2][0][1].startswith("*"):
            return ("bin", c[2][0][1])
        if all(x[0] in ("arg", "num", "str") for x in c[2]):
            return ("in", col, tuple(_argname(x) for x in c[2]))
        return ("other", S.show(c))
    if k == "hole" and c[1].startswith("*"):
        name, _sep, tmpl = (c[1][1:].split("|") + ["", ""])[:3]
        if " ".join(tmpl.split()).lower() in ("bin = ?", "features.bin = ?", "bin == ?"):
            return ("bin", c[1])
        return ("other", c[1])
    if k == "or":
        subs = [classify_conjunct(x) for x in c[1]]
        if all(s[0] == "eq" for s in subs) and len({s[1] for s in subs}) == 1:
            return ("in", subs[0][1], tuple(s[2] for s in subs))
        if _coord_only(c):
            return ("coord", c)
        return ("other", S.show(c))
    if k == "and":
        if _coord_only(c):
            return ("coord", c)
    return ("other", S.show(c) if isinstance(c, tuple) else str(c))


def _qual(e):
    return ((e[1] or "").lower(), e[2].lower())


def _argname(e):
    if e[0] == "arg":
        return e[1]
    return ("const", e[1])


def _coord_only(e):
    from .decide import sql_leaves
    leaves = sql_leaves(e)
    if not leaves:
        return False
    has_col = False
    for l in leaves:
        if l[0] == "col":
            if l[2].lower() not in ("start", "end"):
                return False
            has_col = True
        elif l[0] in ("arg", "hole", "num"):
            continue
        else:
            return False
    return has_col


def where_conjuncts(bq):
    """All top-level conjuncts (WHERE plus JOIN..ON) with parameters
    substituted, classified."""
    sel = bq.stmt
    out = []
    exprs = [on for _ref, on in sel.joins if on is not None]
    if sel.where is not None:
        exprs.append(sel.where)
    for e in exprs:
        for c in S.conjuncts(bq.substituted(e)):
            out.append(classify_conjunct(c))
    return out


# ------------------------------------------------------------ partitions
def ft_options(tier):
    opts = [("none", None), ("str", Sym("ft", "str")),
            ("list2", [Sym("ft1", "str"), Sym("ft2", "str")]),
            ("tuple3", (Sym("ft1", "str"), Sym("ft2", "str"), Sym("ft3", "str")))]
    if tier == "thorough":
        opts.append(("list4", [Sym("ft%d" % i, "str") for i in range(1, 5)]))
        opts.append(("tuple1", (Sym("ft1", "str"),)))
    return opts


def limit_options():
    return [
        ("none", None),
        ("tuple", (Sym("seqid", "str"), Sym("S", "int"), Sym("E", "int"))),
        ("str", AStr([Sym("seqid", "str"), ":", Sym("S", "str"), "-", Sym("E", "str")])),
    ]


def order_options(tier, valid):
    opts = [("none", None), ("str:start", "start"), ("str:length", "length"), ("str:file_order", "file_order"),
            ("tuple:start", ("start",)), ("tuple:length", ("length",)), ("list:seqid,start", ["seqid", "start"]),
            ("tuple:featuretype,length", ("featuretype", "length")), ("tuple:file_order", ("file_order",)),
            ("str:bogus", "no_such_column"), ("tuple:bogus", ("start", "no_such_column"))]
    if tier == "thorough":
        for v in valid:
            opts.append(("str:" + v, v))
            opts.append(("tuple:" + v, (v,)))
        for a, b in itertools.permutations(valid[:5], 2):
            opts.append(("tuple:%s,%s" % (a, b), (a, b)))
    seen, out = set(), []
    for o in opts:
        if o[0] not in seen:
            seen.add(o[0])
            out.append(o)
    return out


def strand_options():
    return [("none", None), ("given", Sym("strand", "str"))]


# ----------------------------------------------------- filter comparison
def normalise_filters(classified):
    """-> (filters {col: frozenset(argnames)} (dup cols -> problems), coords,
    bins, joins, others, problems)"""
    filters, coords, bins_, joins, others, problems = {}, [], [], [], [], []
    for c in classified:
        if c[0] == "eq":
            col, names = c[1], frozenset([c[2]])
        elif c[0] == "in":
            col, names = c[1], frozenset(c[2])
            if len(names) != len(c[2]):
                problems.append("duplicate argument in IN-list on %s: %r" % (c[1], c[2]))
        elif c[0] == "coord":
            coords.append(c[1])
            continue
        elif c[0] == "bin":
            bins_.append(c[1])
            continue
        elif c[0] == "join":
            joins.append((c[1], c[2]))
            continue
        else:
            others.append(c[1])
            continue
        if col in filters:
            problems.append("column %s is restricted twice" % col)
        filters[col] = names
    return filters, coords, bins_, joins, others, problems


def compare_filters(filters, expected):
    """expected: {col: iterable of arg names}.  Returns problem strings."""
    problems = []
    exp = {k: frozenset(v) for k, v in expected.items()}
    for col, names in exp.items():
        if col not in filters:
            problems.append("missing restriction %s ∈ {%s}" % (col, ", ".join(map(str, sorted(names, key=str)))))
        elif filters[col] != names:
            problems.append("restriction on %s is bound to {%s}, expected {%s}" % (
                col, ", ".join(map(str, sorted(filters[col], key=str))), ", ".join(map(str, sorted(names, key=str)))))
    for col in filters:
        if col not in exp:
            problems.append("unrequested restriction on %s (bound to {%s})" % (
                col, ", ".join(map(str, sorted(filters[col], key=str)))))
    return problems


def coord_predicate(coords, rename=None):
    """Conjunction of the coordinate conjuncts as env -> bool over variables
    fs, fe (feature start/end) and the argument names (renamed)."""
    from .decide import sql_pred
    rename = rename or {}

    def resolve(leaf):
        if leaf[0] == "col":
            return {"start": "fs", "end": "fe"}[leaf[2].lower()]
        if leaf[0] == "arg":
            n = leaf[1]
            if isinstance(n, tuple):
                if n[0] == "const" and isinstance(n[1], (int, float)):
                    return n[1]
                raise ValueError("coordinate bound to %r" % (n,))
            return rename.get(n, n)
        if leaf[0] == "hole":
            return rename.get(leaf[1], leaf[1])
        if leaf[0] == "num":
            return leaf[1]
        raise ValueError("unexpected leaf %r" % (leaf,))
    fs = [sql_pred(c, resolve) for c in coords]
    return lambda env: all(f(env) for f in fs)


def coord_vars(coords, rename=None):
    from .decide import sql_leaves
    rename = rename or {}
    out = set()
    for c in coords:
        for l in sql_leaves(c):
            if l[0] == "arg" and not isinstance(l[1], tuple):
                out.add(rename.get(l[1], l[1]))
            elif l[0] == "hole":
                out.add(rename.get(l[1], l[1]))
    return out
