"""Scenario mode of the abstract evaluator: the importer / query code is evaluated against a model database (minidb), an
in-memory file system and a counter-named temporary-file service, so that what ends up in the tables for a small family
of features is computed from the source -- helper extraction, handler tables, generators, named placeholders and the
like do not matter to the result.  gffutils, sqlite3, tempfile and os are not imported or run: these are their models."""
import json

from . import minidb
from .absint import HostIter, StreamVal, AStr, Sym, Opaque, RaiseEx, Unsupported, GenList


def _text(interp, v, what):
    if isinstance(v, AStr):
        v = v.simplify()
    if not isinstance(v, str):
        raise Unsupported("%s is not concrete text: %r" % (what, v))
    return v


def _params(v):
    if v is None:
        return ()
    if isinstance(v, dict):
        return dict(v)
    if hasattr(v, "as_dict"):
        return list(v)
    if isinstance(v, (list, tuple)):
        return list(v)
    if isinstance(v, (StreamVal, HostIter)):
        return list(v)
    raise Unsupported("SQL parameters %r" % (v,))


class ConnVal:
    """sqlite3.Connection over a MiniDB."""

    def __init__(self, db, name="conn"):
        self.db, self.name = db, name
        self.attrs = {}
        self.commits = 0
        self.closed = False

    def __repr__(self):
        return "<connection %s>" % self.name

    def __deepcopy__(self, memo):
        return self          # one database per scenario: the connection is shared, like the real one

    def ai_getattr(self, interp, attr):
        if attr in self.attrs:
            return self.attrs[attr]
        if attr in ("row_factory", "text_factory", "isolation_level"):
            return None
        return NotImplemented

    def ai_setattr(self, interp, attr, v):
        self.attrs[attr] = v

    def ai_call(self, interp, attr, pos, kw, node):
        if attr == "cursor":
            return CursorVal(self)
        if attr in ("execute", "executemany", "executescript"):
            c = CursorVal(self)
            c.ai_call(interp, attr, pos, kw, node)
            return c
        if attr == "commit":
            self.commits += 1
            interp.trace.events.append(("commit", self, node))
            return None
        if attr in ("rollback", "close", "create_function", "enable_load_extension"):
            if attr == "close":
                self.closed = True
            return None
        raise Unsupported("connection method %s" % attr)


class CursorVal(HostIter):
    def __init__(self, conn):
        HostIter.__init__(self, iter(()), "cursor")
        self.conn = conn
        self.rowcount = -1
        self.lastrowid = None

    def __deepcopy__(self, memo):
        return self

    def ai_getattr(self, interp, attr):
        if attr in ("rowcount", "lastrowid"):
            return getattr(self, attr)
        if attr == "connection":
            return self.conn
        return NotImplemented

    def _run(self, interp, verb, sql, params, node):
        try:
            res = self.conn.db.execute(sql, params)
        except minidb.IntegrityError as e:
            raise RaiseEx("sqlite3.IntegrityError", str(e), node)
        except minidb.OperationalError as e:
            raise RaiseEx("sqlite3.OperationalError", str(e), node)
        except minidb.SqlUnsupported as e:
            raise Unsupported("database model: %s" % e)
        except minidb.S.SQLError as e:
            raise Unsupported("database model cannot parse %r: %s" % (sql[:80], e))
        return res

    def ai_call(self, interp, attr, pos, kw, node):
        if attr in ("execute", "executemany"):
            sql = _text(interp, pos[0], "SQL text")
            raw = pos[1] if len(pos) > 1 else kw.get("parameters")
            interp.trace.events.append(("execute", sql, raw if not isinstance(raw, (StreamVal, HostIter)) else None, attr, node))
            if attr == "execute":
                res = self._run(interp, attr, sql, _params(raw), node)
                if isinstance(res, tuple):
                    self.it = iter(res[1])
                    self.rowcount = -1
                else:
                    self.it = iter(())
                    self.rowcount = res if isinstance(res, int) else -1
                return self
            n = 0
            seq = raw if raw is not None else []
            if not isinstance(seq, (list, tuple, StreamVal, HostIter)):
                raise Unsupported("executemany over %r" % (seq,))
            for p in seq:
                res = self._run(interp, attr, sql, _params(p), node)
                n += res if isinstance(res, int) else 0
            self.it = iter(())
            self.rowcount = n
            return self
        if attr == "executescript":
            sql = _text(interp, pos[0], "SQL script")
            interp.trace.events.append(("execute", sql, None, attr, node))
            try:
                self.conn.db.script(sql)
            except minidb.OperationalError as e:
                raise RaiseEx("sqlite3.OperationalError", str(e), node)
            except (minidb.SqlUnsupported, minidb.S.SQLError) as e:
                raise Unsupported("database model: %s" % e)
            return self
        if attr == "fetchone":
            try:
                return next(self.it)
            except StopIteration:
                return None
        if attr == "fetchall":
            return list(self.it)
        if attr == "fetchmany":
            n = pos[0] if pos else 1
            out = []
            for _ in range(n):
                try:
                    out.append(next(self.it))
                except StopIteration:
                    break
            return out
        if attr == "close":
            return None
        raise Unsupported("cursor method %s" % attr)


class MemFile(HostIter):
    """A file of the in-memory file system: written chunk by chunk, read line by line."""

    def __init__(self, fs, path, mode):
        self.fs, self.path, self.mode = fs, path, mode
        self.closed = False
        self.delete_on_close = False
        if "w" in mode:
            fs[path] = []
        elif "a" in mode:
            fs.setdefault(path, [])
        if "r" in mode or "+" in mode:
            text = "".join(fs[path])
            HostIter.__init__(self, iter(text.splitlines(True)), "file %s" % path)
        else:
            HostIter.__init__(self, iter(()), "file %s" % path)

    def __deepcopy__(self, memo):
        return self

    def ai_getattr(self, interp, attr):
        if attr == "name":
            return self.path
        if attr == "closed":
            return self.closed
        if attr == "mode":
            return self.mode
        return NotImplemented

    def ai_call(self, interp, attr, pos, kw, node):
        if attr == "write":
            if not ("w" in self.mode or "a" in self.mode or "+" in self.mode):
                raise RaiseEx("io.UnsupportedOperation", "not writable", node)
            self.fs[self.path].append(_text(interp, pos[0], "text written to %s" % self.path))
            interp.trace.events.append(("write", self.path, pos[0], node))
            return len(pos[0])
        if attr == "writelines":
            for x in pos[0]:
                self.fs[self.path].append(_text(interp, x, "text written to %s" % self.path))
            return None
        if attr in ("flush", "seek", "__enter__"):
            return None if attr != "__enter__" else self
        if attr in ("close", "__exit__"):
            if not self.closed and getattr(self, "delete_on_close", False):
                self.fs.pop(self.path, None)       # NamedTemporaryFile(delete=True): gone when closed
            self.closed = True
            return None
        if attr == "read":
            return "".join(self.it)
        if attr == "readline":
            try:
                return next(self.it)
            except StopIteration:
                return ""
        if attr == "readlines":
            return list(self.it)
        raise Unsupported("file method %s" % attr)


def _pathname(v):
    if isinstance(v, AStr):
        v = v.simplify()
    if isinstance(v, str):
        return v
    if isinstance(v, (Sym, Opaque)):
        return "<%s>" % v.name
    raise Unsupported("file path %r" % (v,))


def open_file(interp, pos, kw, node):
    path = _pathname(pos[0])
    mode = pos[1] if len(pos) > 1 else kw.get("mode", "r")
    if not isinstance(mode, str):
        raise Unsupported("open() mode %r" % (mode,))
    interp.trace.events.append(("open", pos[0], mode, node))
    if "r" in mode and path not in interp.vfs:
        raise RaiseEx("FileNotFoundError", path, node)
    f = MemFile(interp.vfs, path, mode)
    interp.opened.append((path, mode))
    interp.open_sites.append((path, mode, getattr(node, "lineno", None)))
    return f


def json_loads(i, pos, kw, node):
    v = pos[0]
    if isinstance(v, AStr):
        v = v.simplify()
    if not isinstance(v, str):
        raise Unsupported("json.loads of %r" % (v,))
    try:
        return json.loads(v)
    except ValueError as e:
        raise RaiseEx("json.JSONDecodeError", str(e), node)


def install_json(interp):
    """json / simplejson: dumps, loads, JSONEncoder().encode, JSONDecoder().decode on concrete values."""
    def s_dumps(i, pos, kw, node):
        try:
            return json.dumps(pos[0], **{k: v for k, v in kw.items() if k in ("separators", "sort_keys", "ensure_ascii")})
        except TypeError:
            raise Unsupported("json.dumps of a value with symbolic parts: %r" % (pos[0],))

    def s_loads(i, pos, kw, node):
        v = pos[0]
        if isinstance(v, AStr):
            v = v.simplify()
        if not isinstance(v, str):
            raise Unsupported("json.loads of %r" % (v,))
        try:
            return json.loads(v)
        except ValueError as e:
            raise RaiseEx("json.JSONDecodeError", str(e), node)

    class JsonCodec:
        def __init__(self, kw):
            self.kw = kw

        def __deepcopy__(self, memo):
            return self

        def ai_call(self, i, attr, pos, kw, node):
            if attr == "encode":
                return s_dumps(i, pos, self.kw, node)
            if attr == "decode":
                return s_loads(i, pos, {}, node)
            raise Unsupported("JSON codec method %s" % attr)
    for mod in ("json", "simplejson"):
        interp.ext_summaries[mod + ".dumps"] = s_dumps
        interp.ext_summaries[mod + ".loads"] = s_loads
        interp.ext_summaries[mod + ".JSONEncoder"] = lambda i, pos, kw, node: JsonCodec(dict(kw))
        interp.ext_summaries[mod + ".JSONDecoder"] = lambda i, pos, kw, node: JsonCodec({})


def install(interp, db=None, files=None):
    """Put `interp` into scenario mode; returns the connection over `db`."""
    interp.vfs = dict(files or {})
    interp.opened = []
    interp.open_sites = []
    interp.unlinked = []
    interp.tempnames = []
    interp.temp_requests = []
    db = db if db is not None else minidb.MiniDB()
    conn = ConnVal(db)
    interp.conn = conn

    def s_connect(i, pos, kw, node):
        i.trace.events.append(("connect", pos[0] if pos else None, node))
        return conn

    def fresh_name(i, kw):
        n = len(i.tempnames) + 1
        name = "/tmp/tmp%d%s" % (n, kw.get("suffix") if isinstance(kw.get("suffix"), str) else "")
        i.tempnames.append(name)
        return name

    def s_tmp(i, pos, kw, node):
        # tempfile.NamedTemporaryFile(mode='w+b', ..., suffix=None, delete=True): an open file with a fresh name
        name = fresh_name(i, kw)
        mode = pos[0] if pos else kw.get("mode", "w+b")
        f = MemFile(i.vfs, name, "w" if not isinstance(mode, str) else mode.replace("b", "").replace("+", "") or "w")
        f.delete_on_close = kw.get("delete", True) is not False
        i.trace.events.append(("tempfile", name, kw, node))
        i.temp_requests.append(dict(kw))
        i.opened.append((name, "w"))
        return f

    def s_mkstemp(i, pos, kw, node):
        name = fresh_name(i, kw)
        i.vfs[name] = []
        fd = Opaque("fd#%d" % len(i.tempnames), "fd")
        fd.attrs["path"] = name
        i.temp_requests.append(dict(kw))
        i.trace.events.append(("tempfile", name, kw, node))
        return (fd, name)

    def s_fdopen(i, pos, kw, node):
        fd = pos[0]
        if not (isinstance(fd, Opaque) and "path" in fd.attrs):
            raise Unsupported("os.fdopen(%r)" % (fd,))
        mode = pos[1] if len(pos) > 1 else kw.get("mode", "r")
        return MemFile(i.vfs, fd.attrs["path"], mode.replace("b", ""))

    def s_unlink(i, pos, kw, node):
        path = _pathname(pos[0])
        if path not in i.vfs:
            raise RaiseEx("FileNotFoundError", path, node)
        del i.vfs[path]
        i.unlinked.append(path)
        i.trace.events.append(("unlink", path, node))
        return None

    install_json(interp)
    interp.ext_summaries["sqlite3.connect"] = s_connect
    interp.ext_summaries["tempfile.NamedTemporaryFile"] = s_tmp
    interp.ext_summaries["tempfile.mkstemp"] = s_mkstemp
    interp.ext_summaries["os.fdopen"] = s_fdopen
    interp.ext_summaries["os.close"] = lambda i, pos, kw, node: None
    interp.ext_summaries["os.unlink"] = s_unlink
    interp.ext_summaries["os.remove"] = s_unlink
    interp.ext_summaries["os.path.exists"] = lambda i, pos, kw, node: _pathname(pos[0]) in i.vfs
    def s_unquote(i, pos, kw, node):
        import urllib.parse as _up
        v = pos[0].simplify() if isinstance(pos[0], AStr) else pos[0]
        if not isinstance(v, str):
            raise Unsupported("urllib.parse.unquote of %r" % (v,))
        return _up.unquote(v)
    interp.ext_summaries["urllib.parse.unquote"] = s_unquote
    interp.ext_summaries["textwrap.dedent"] = lambda i, pos, kw, node: __import__("textwrap").dedent(_text(i, pos[0], "text"))
    # urllib.parse: what the package asks of it for telling URLs from paths
    import urllib.parse as _up0

    class _Parsed:
        def __init__(self, r):
            self.r = r

        def __deepcopy__(self, memo):
            return self

        def ai_getattr(self, i, attr):
            return getattr(self.r, attr) if attr in ("scheme", "netloc", "path", "query", "fragment", "params") else NotImplemented

    def s_urlparse(i, pos, kw, node):
        v = pos[0].simplify() if isinstance(pos[0], AStr) else pos[0]
        if not isinstance(v, str):
            raise Unsupported("urlparse of %r" % (v,))
        return _Parsed(_up0.urlparse(v))
    for mod in ("urllib.parse", "urlparse", "urllib"):
        interp.ext_summaries[mod + ".urlparse"] = s_urlparse
    interp.ext_values["urllib.parse.uses_netloc"] = list(_up0.uses_netloc)
    interp.ext_summaries["tempfile.gettempdir"] = lambda i, pos, kw, node: "/tmp"
    interp.ext_summaries["tempfile.gettempprefix"] = lambda i, pos, kw, node: "tmp"
    interp.ext_summaries["os.getpid"] = lambda i, pos, kw, node: 4242
    interp.ext_summaries["os.path.join"] = lambda i, pos, kw, node: "/".join(_pathname(x).rstrip("/") if k < len(pos) - 1 else _pathname(x) for k, x in enumerate(pos))
    interp.ext_summaries["os.path.expanduser"] = lambda i, pos, kw, node: pos[0]
    interp.ext_summaries["os.path.abspath"] = lambda i, pos, kw, node: pos[0] if _pathname(pos[0]).startswith("/") else "/cwd/" + _pathname(pos[0])
    interp.ext_summaries["os.path.dirname"] = lambda i, pos, kw, node: _pathname(pos[0]).rsplit("/", 1)[0] if "/" in _pathname(pos[0]) else ""
    interp.ext_summaries["os.getcwd"] = lambda i, pos, kw, node: "/cwd"

    def s_splitext(i, pos, kw, node):
        p_ = _pathname(pos[0])
        base = p_.rsplit("/", 1)[-1]
        if "." in base.lstrip("."):
            k = p_.rfind(".")
            return (p_[:k], p_[k:])
        return (p_, "")
    interp.ext_summaries["os.path.splitext"] = s_splitext
    interp.ext_summaries["os.path.basename"] = lambda i, pos, kw, node: _pathname(pos[0]).rsplit("/", 1)[-1]
    return conn
