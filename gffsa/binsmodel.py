"""Facts read off bins.bins that several properties need: the fallback domain
(the disjunction of the guards that return the constant bin 1) and the folded
constants."""
import ast

from . import AnalysisError
from .decide import py_pred
from .util import is_name


def bins_consts(ctx):
    env = ctx.folder.env("bins")
    for k in ("OFFSETS", "FIRST_SHIFT", "NEXT_SHIFT", "MAX_CHROM_SIZE", "COORD_OFFSETS"):
        if k not in env:
            raise AnalysisError("cannot fold bins.%s" % k)
    return env


def fallback_predicate(ctx, fmt="gff"):
    """(predicate(env{start,stop}) -> bool, [], names): whether bins.bins(start, stop, fmt, one=False) is the constant
    whole-chromosome answer {1}.  Obtained by evaluating the source of bins.bins at the point; the
    callers evaluate it on the threshold points of the order predicates involved, which cut the plane into regions on
    which the answer is constant."""
    from .absint import Interp, Unsupported
    f = ctx.proj.func("bins.bins")
    ctx.touch(f)
    if len(f.params) < 2:
        raise AnalysisError("bins.bins lost its (start, stop) parameters")
    cache = {}
    it = Interp(ctx)

    def pred(env):
        key = (env["start"], env["stop"])
        if key not in cache:
            args = {f.params[0]: key[0], f.params[1]: key[1], "fmt": fmt, "one": False}
            try:
                traces = it.run(f, args)
            except Unsupported as e:
                raise AnalysisError("bins.bins outside the analysable subset: %s" % e)
            if len(traces) != 1 or traces[0].result[0] != "return":
                raise AnalysisError("bins.bins(%d, %d) has %d results / raises on concrete input" % (key[0], key[1], len(traces)))
            v = traces[0].result[1]
            cache[key] = isinstance(v, (list, set, frozenset)) and set(v) == {1}
        return cache[key]
    return pred, [], (f.params[0], f.params[1])


# ---------------------------------------------------------------------------------------------------------------------
# The scheme of the statement (UCSC binning, 5 levels, 128 kb finest, 8-fold), written independently of the code.
LEVELS, FINEST, STEP = 5, 17, 3
MAXC = 2 ** (FINEST + STEP * (LEVELS - 1))


def spec_offset(k):
    return (8 ** (LEVELS - k) - 1) // 7


def spec_bins(start, stop, fmt="gff", one=True):
    coord = {"gff": 1, "bed": 0}[fmt]
    if start < coord or stop < 0 or start >= MAXC or stop >= MAXC:
        return 1 if one else {1}
    out = {1}
    for k in range(LEVELS):
        sh = FINEST + STEP * k
        a, b = (start - coord) >> sh, stop >> sh
        if one and a == b:
            return spec_offset(k) + a
        out.update(range(spec_offset(k) + a, spec_offset(k) + b + 1))
    return out


def grid_points():
    """Coordinates around every place where some level's bin changes (multiples of the level's size, with the 1-based and
    0-based start conventions), the range limits, and a few interior points."""
    pts = {-2, -1, 0, 1, 2, 5000, MAXC - 2, MAXC - 1, MAXC, MAXC + 1}
    for k in range(LEVELS):
        size = 1 << (FINEST + STEP * k)
        last = MAXC // size - 1
        for m in sorted({0, 1, 2, 7, 8, 9, last}):
            if 0 <= m <= last + 1:
                for d in (-1, 0, 1, 2):
                    pts.add(m * size + d)
        pts.add(size // 2 + 12345 % size)
    return sorted(p for p in pts if -2 <= p <= MAXC + 1)


def grid_pairs(tier="quick"):
    pts = grid_points()
    pairs = set()
    for s in pts:
        near = {s - 1, s, s + 1, s + 100}
        for k in range(LEVELS):
            size = 1 << (FINEST + STEP * k)
            nxt = (max(s, 0) // size + 1) * size
            near |= {nxt - 1, nxt, nxt + 1, s + size - 1, s + size}
        for e in near:
            if -2 <= e <= MAXC + 1:
                pairs.add((s, e))
        if tier == "thorough":
            for e in pts:
                pairs.add((s, e))
    return sorted(pairs)


def bins_on_grid(ctx, tier="quick", only=None):
    """bins.bins evaluated (own evaluator on the source) on the threshold grid: [(fmt, one, start, stop, value)] where value
    is an int, a frozenset of ints, or ('raise', name)."""
    from .absint import Interp, Unsupported
    f = ctx.proj.func("bins.bins")
    ctx.touch(f)
    if len(f.params) < 2:
        raise AnalysisError("bins.bins lost its (start, stop) parameters")
    out = []
    it = Interp(ctx)
    names = list(f.params)
    for fmt in ("gff", "bed"):
        for one in (True, False):
            if only is not None and (fmt, one) not in only:
                continue
            for s, e in grid_pairs(tier):
                args = {names[0]: s, names[1]: e}
                for nm, v in (("fmt", fmt), ("one", one)):
                    if nm not in names:
                        raise AnalysisError("bins.bins lost its %s parameter" % nm)
                    args[nm] = v
                try:
                    traces = it.run(f, args)
                except Unsupported as ex:
                    raise AnalysisError("bins.bins outside the analysable subset: %s" % ex)
                if len(traces) != 1:
                    raise AnalysisError("bins.bins forks on concrete coordinates (%d paths)" % len(traces))
                t = traces[0]
                if t.result[0] != "return":
                    v = ("raise", t.result[1])
                else:
                    v = t.result[1]
                    if isinstance(v, (list, set, frozenset, tuple)) and not isinstance(v, bool):
                        v = frozenset(v) if all(isinstance(x, int) for x in v) else ("odd", repr(v)[:60])
                    elif isinstance(v, bool) or not isinstance(v, int):
                        v = ("odd", repr(v)[:60])
                out.append((fmt, one, s, e, v))
    return out
