"""Facts read off bins.bins that several properties need: the fallback domain
(the disjunction of the guards that return the constant bin 1) and the folded
constants."""
import ast

from . import AnalysisError
from .decide import py_pred
from .util import is_name


def bins_consts(ctx):
    env = ctx.folder.env("bins")
    for k in ("OFFSETS", "FIRST_SHIFT", "NEXT_SHIFT", "MAX_CHROM_SIZE", "COORD_OFFSETS"):
        if k not in env:
            raise AnalysisError("cannot fold bins.%s" % k)
    return env


def fallback_predicate(ctx, fmt="gff"):
    """(predicate(env{start,stop}) -> bool, [], names): whether bins.bins(start, stop, fmt, one=False) is the constant
    whole-chromosome answer {1}.  Obtained from the abstract interpreter run on singleton intervals (exact there); the
    callers evaluate it on the threshold points of the order predicates involved, which cut the plane into regions on
    which the answer is constant."""
    from .binsai import BinsInterp, ASet, Unsup
    f = ctx.proj.func("bins.bins")
    ctx.touch(f)
    if len(f.params) < 2:
        raise AnalysisError("bins.bins lost its (start, stop) parameters")
    consts = bins_consts(ctx)
    cache = {}

    def pred(env):
        key = (env["start"], env["stop"])
        if key not in cache:
            bi = BinsInterp(ctx, f, consts)
            try:
                rets = bi.run(fmt, False, (key[0], key[0]), (key[1], key[1]))
            except Unsup as e:
                raise AnalysisError("bins.bins outside the modelled subset: %s" % e)
            if len(rets) != 1:
                raise AnalysisError("bins.bins(%d, %d) has %d abstract results on singleton input" % (key[0], key[1], len(rets)))
            v = rets[0].value
            cache[key] = isinstance(v, ASet) and not v.ranges and v.consts == {1}
        return cache[key]
    return pred, [], (f.params[0], f.params[1])
