"""Facts read off bins.bins that several properties need: the fallback domain
(the disjunction of the guards that return the constant bin 1) and the folded
constants."""
import ast

from . import AnalysisError
from .decide import py_pred
from .util import is_name


def bins_consts(ctx):
    env = ctx.folder.env("bins")
    for k in ("OFFSETS", "FIRST_SHIFT", "NEXT_SHIFT", "MAX_CHROM_SIZE", "COORD_OFFSETS"):
        if k not in env:
            raise AnalysisError("cannot fold bins.%s" % k)
    return env


def _returns_const_one(stmts, one_name):
    """True when the block returns 1 / set([1]) / {1} on every path (allowing
    an `if one:` split)."""
    if not stmts:
        return False
    st = stmts[-1] if len(stmts) == 1 else None
    if st is None:
        return False
    if isinstance(st, ast.Return):
        return _is_one(st.value)
    if isinstance(st, ast.If):
        return _returns_const_one(st.body, one_name) and _returns_const_one(st.orelse, one_name)
    return False


def _is_one(v):
    if isinstance(v, ast.Constant) and v.value == 1:
        return True
    if isinstance(v, ast.Set) and len(v.elts) == 1 and _is_one(v.elts[0]):
        return True
    if isinstance(v, ast.Call) and is_name(v.func, "set") and len(v.args) == 1 and \
            isinstance(v.args[0], (ast.List, ast.Tuple, ast.Set)) and len(v.args[0].elts) == 1 and _is_one(v.args[0].elts[0]):
        return True
    if isinstance(v, ast.IfExp):
        return _is_one(v.body) and _is_one(v.orelse)
    return False


def fallback_guards(ctx):
    """Guards (ast exprs over the parameters, evaluated before the coordinates
    are re-bound) whose branch returns the constant whole-chromosome bin."""
    f = ctx.proj.func("bins.bins")
    ctx.touch(f)
    params = f.params
    if len(params) < 2:
        raise AnalysisError("bins.bins lost its (start, stop) parameters")
    start, stop = params[0], params[1]
    guards = []
    for st in f.node.body:
        if isinstance(st, ast.Expr) and isinstance(st.value, ast.Constant):
            continue
        if isinstance(st, ast.If) and not st.orelse and _returns_const_one(st.body, "one"):
            guards.append(st.test)
            continue
        # the first statement that re-binds a coordinate ends the guard prefix
        rebinding = False
        for n in ast.walk(st):
            if isinstance(n, ast.Name) and isinstance(n.ctx, ast.Store) and n.id in (start, stop):
                rebinding = True
        if rebinding:
            break
    return f, start, stop, guards


def fallback_predicate(ctx, fmt="gff"):
    """(predicate(env{start,stop}) -> bool, guards, names)"""
    f, start, stop, guards = fallback_guards(ctx)
    env = bins_consts(ctx)
    fmt_param = f.params[2] if len(f.params) > 2 else "fmt"

    def resolve(node):
        if isinstance(node, ast.Name):
            if node.id == start:
                return "start"
            if node.id == stop:
                return "stop"
            if node.id in env and isinstance(env[node.id], int):
                return env[node.id]
        if isinstance(node, ast.Subscript) and isinstance(node.value, ast.Name) and node.value.id in env \
                and isinstance(env[node.value.id], dict):
            k = node.slice
            if isinstance(k, ast.Name) and k.id == fmt_param:
                return env[node.value.id].get(fmt)
            if isinstance(k, ast.Constant):
                return env[node.value.id].get(k.value)
        return None
    preds = []
    for g in guards:
        try:
            preds.append(py_pred(g, resolve))
        except ValueError as e:
            raise AnalysisError("bins.bins guard outside the modelled subset: %s" % e)
    return (lambda e: any(p(e) for p in preds)), guards, (start, stop)
