"""CLI: python -m gffsa check C06 [--tier quick|thorough] [--root /repo]
        python -m gffsa replay <replay.json>
        python -m gffsa selftest [C06 ...] [--jobs N]
        python -m gffsa all [--tier quick]
"""
import argparse
import json
import os
import sys
import threading
threading.stack_size(256 * 1024 * 1024)     # generator bodies of the evaluated code run on threads of their own
import traceback

from . import AnalysisError
from .report import Ctx, finish, VERIF


def run_check(pid, tier, root, seed, write=True, out=print):
    from .props import load
    try:
        mod = load(pid)
        ctx = Ctx(pid, tier=tier, root=root, seed=seed)
        mod.check(ctx)
        code = finish(ctx, out=out, write=write)
        return code, ctx
    except AnalysisError as e:
        out("ANALYSIS-ERROR property=%s %s" % (pid, e))
        return 2, None
    except Exception as e:  # fail closed, never a VIOLATION line
        tb = traceback.format_exc().strip().splitlines()
        out("ANALYSIS-ERROR property=%s internal error: %s: %s" % (pid, type(e).__name__, e))
        for line in tb[-8:]:
            out("  | " + line)
        return 2, None


def main(argv=None):
    ap = argparse.ArgumentParser(prog="gffsa")
    sub = ap.add_subparsers(dest="cmd", required=True)
    c = sub.add_parser("check")
    c.add_argument("pid")
    c.add_argument("--tier", default=os.environ.get("VERIF_TIER", "quick"))
    c.add_argument("--root", default=os.environ.get("GFFSA_ROOT", "/repo"))
    c.add_argument("--no-write", action="store_true")
    r = sub.add_parser("replay")
    r.add_argument("path")
    r.add_argument("--root", default=os.environ.get("GFFSA_ROOT", "/repo"))
    s = sub.add_parser("selftest")
    s.add_argument("pids", nargs="*")
    s.add_argument("--jobs", type=int, default=16)
    s.add_argument("--root", default=os.environ.get("GFFSA_ROOT", "/repo"))
    s.add_argument("-v", action="store_true")
    s.add_argument("--fixtures-only", action="store_true")
    a = sub.add_parser("all")
    a.add_argument("--tier", default="quick")
    a.add_argument("--root", default=os.environ.get("GFFSA_ROOT", "/repo"))
    a.add_argument("--no-write", action="store_true")
    args = ap.parse_args(argv)
    try:
        seed = int(os.environ.get("VERIF_SEED", "0"))
    except ValueError:
        seed = 0

    if args.cmd == "check":
        tier = args.tier if args.tier in ("quick", "thorough") else "quick"
        code, ctx = run_check(args.pid, tier, args.root, seed, write=not args.no_write)
        if tier == "thorough" and code != 1:
            from .selftest import run_selftest
            st = run_selftest([args.pid], root=args.root, jobs=16, seed=seed, verbose=False)
            if ctx is not None and not args.no_write:
                _merge_selftest_into_evidence(args.pid, st)
            if st["failed"] and code == 0:
                for f in st["failures"]:
                    print("SELFTEST-FAIL property=%s %s" % (args.pid, f))
                print("ANALYSIS-ERROR property=%s checker self-test failed (a checker defect, not a verdict about gffutils)" % args.pid)
                code = 2
        return code
    if args.cmd == "replay":
        with open(args.path) as fh:
            rec = json.load(fh)
        pid = rec["property"]
        lines = []
        code, ctx = run_check(pid, "quick", args.root, seed, write=False, out=lines.append)
        if ctx is None:
            print("\n".join(lines))
            return 2
        still = [o for o in ctx.obs if not o.ok and o.rule == rec["rule"] and o.sig == rec["signature"]
                 and (o.func or None) == rec.get("function")]
        if still:
            o = still[0]
            print("VIOLATION property=%s replay=%s" % (pid, args.path))
            print("  %s  rule=%s  instance=%s" % (o.where, o.rule, o.sig))
            print("  obligation: %s" % o.desc)
            if o.detail:
                print("  detail: %s" % (o.detail,))
            return 1
        print("REPLAY property=%s obligation %s :: %s no longer fails on %s" % (pid, rec["rule"], rec["signature"], args.root))
        return 0
    if args.cmd == "selftest":
        from .selftest import run_selftest
        st = run_selftest(args.pids or None, root=args.root, jobs=args.jobs, seed=seed, verbose=args.v, fixtures_only=args.fixtures_only)
        print("SELFTEST variants=%d ok=%d failed=%d skipped=%d" % (st["total"], st["ok"], st["failed"], st["skipped"]))
        for f in st["failures"]:
            print("SELFTEST-FAIL " + f)
        return 2 if st["failed"] else 0
    if args.cmd == "all":
        from .props import ALL
        worst = 0
        for pid in ALL:
            code, _ = run_check(pid, args.tier, args.root, seed, write=not args.no_write)
            worst = max(worst, code)
        return worst


def _merge_selftest_into_evidence(pid, st):
    p = os.path.join(VERIF, "evidence", pid + ".json")
    try:
        with open(p) as fh:
            ev = json.load(fh)
        ev["coverage"]["selftest"] = {k: st[k] for k in ("total", "ok", "failed", "skipped")}
        ev["coverage"]["selftest_variants"] = st.get("names", [])[:80]
        ev["coverage"]["evaluations"] = ev["coverage"].get("evaluations", 0) + st["total"]
        ev["wall_s"] = round(ev.get("wall_s", 0) + st.get("wall_s", 0), 3)
        with open(p, "w") as fh:
            json.dump(ev, fh, indent=1)
    except Exception:
        pass


if __name__ == "__main__":
    sys.exit(main())
