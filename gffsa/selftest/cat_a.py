"""Self-test catalogue, properties C01-C07."""
from . import Variant

F, H, C, I, K, P, IT = ("gffutils/feature.py", "gffutils/helpers.py", "gffutils/create.py", "gffutils/interface.py",
                        "gffutils/constants.py", "gffutils/parser.py", "gffutils/iterators.py")


def M(pid, name, file, old, new, rule=None):
    return Variant(pid, name, "mutant", [(file, old, new)], rule)


def T(pid, name, *edits):
    return Variant(pid, name, "twin", list(edits))


VARIANTS = [
    # ------------------------------------------------------------------ C01
    M("C01", "astuple-swap-score-strand", F, "                self.score,\n                self.strand,\n", "                self.strand,\n                self.score,\n", "R1"),
    M("C01", "jsonify-sort-keys", H, 'return json.dumps(x._d, separators=(",", ":"))', 'return json.dumps(x._d, separators=(",", ":"), sort_keys=True)', "R3"),
    M("C01", "finalize-stores-default-dialect", C, "version=version.version, dialect=helpers._jsonify(self.iterator.dialect)",
      "version=version.version, dialect=helpers._jsonify(constants.dialect)", "R4"),
    M("C01", "direct-construction", I, "        for i in self._execute(query, args):\n            yield self._feature_returner(**i)\n\n    # TODO: convert this",
      "        for i in self._execute(query, args):\n            yield Feature(**i)\n\n    # TODO: convert this", "R4"),
    M("C01", "extras-slice-10", F, 'd["extra"] = fields[9:]', 'd["extra"] = fields[10:]', "R5"),
    M("C01", "continue-before-insert", C, "            # TODO: handle ID creation here...should be combined with the\n",
      "            if f.start is None:\n                continue\n            # TODO: handle ID creation here...should be combined with the\n", "R2"),
    M("C01", "select-drops-extra", K, '_SELECT = "SELECT " + ", ".join(_keys) + ", features.rowid as file_order FROM features "',
      '_SELECT = "SELECT " + ", ".join(_keys[:-2] + _keys[-1:]) + ", features.rowid as file_order FROM features "', "R1"),
    M("C01", "unjsonify-no-wrap", H, "        obj = json.loads(x)\n        return dict_class(obj)", "        obj = json.loads(x)\n        return obj", "R3"),
    M("C01", "print-None-coordinate-as-empty", F, '        if items[3] is None:\n            items[3] = "."', '        if items[3] is None:\n            items[3] = ""', "R5"),
    T("C01", "astuple-through-local", (F, "        if not encoding:\n            return (\n                self.id,", "        if not encoding:\n            fields = (\n                self.id,"),
      (F, "                self.calc_bin(),\n            )\n        return (\n            self.id.decode(encoding),",
       "                self.calc_bin(),\n            )\n            return fields\n        return (\n            self.id.decode(encoding),")),
    T("C01", "reorder-setdefaults", (I, '        kwargs.setdefault("dialect", self.dialect)\n        kwargs.setdefault("keep_order", self.keep_order)\n',
                                     '        kwargs.setdefault("keep_order", self.keep_order)\n        kwargs.setdefault("dialect", self.dialect)\n')),
    # ------------------------------------------------------------------ C02
    M("C02", "parents-join-swapped", I, '            join_on="parent",\n            join_to="child",', '            join_on="child",\n            join_to="parent",', "R4"),
    M("C02", "first-parent-only", C, 'for parent in f.attributes["Parent"]:', 'for parent in f.attributes["Parent"][:1]:', "R1"),
    M("C02", "relation-row-reversed", C, "                        (parent, f.id),\n", "                        (f.id, parent),\n", "R1"),
    M("C02", "drop-distinct", I, 'query = query.replace("SELECT", "SELECT DISTINCT")', 'query = query.replace("SELECT", "SELECT")', "R4"),
    M("C02", "level-bound-before-id", I, '        args = [id]\n\n        level_clause = ""\n        if level is not None:\n            level_clause = "relations.level = ?"\n            args.append(level)\n',
      '        args = []\n\n        level_clause = ""\n        if level is not None:\n            level_clause = "relations.level = ?"\n            args.append(level)\n        args.append(id)\n', "R4"),
    M("C02", "closure-before-populate", C, "        self._populate_from_lines(self.iterator)\n        self._update_relations()\n        self._finalize()",
      "        self._update_relations()\n        self._populate_from_lines(self.iterator)\n        self._finalize()", "R3"),
    M("C02", "closure-any-level", C, "                           WHERE level = 1 AND parent IN\n                           (SELECT child FROM relations\n                            WHERE parent = ? AND level = 1)",
      "                           WHERE parent IN\n                           (SELECT child FROM relations\n                            WHERE parent = ?)", "R2"),
    M("C02", "level2-stored-as-3", C, "yield dict(parent=parent, child=child, level=2)", "yield dict(parent=parent, child=child, level=3)", "R2"),
    M("C02", "relation-insert-replace", C, "                        INSERT OR IGNORE INTO relations VALUES\n                        (?, ?, 1)", "                        INSERT INTO relations VALUES\n                        (?, ?, 1)", "R1"),
    T("C02", "closure-as-self-join", (C, "                           SELECT child FROM relations\n                           WHERE level = 1 AND parent IN\n                           (SELECT child FROM relations\n                            WHERE parent = ? AND level = 1)",
                                      "                           SELECT r2.child FROM relations r1\n                           JOIN relations r2 ON r2.parent = r1.child\n                           WHERE r1.parent = ? AND r1.level = 1 AND r2.level = 1")),
    T("C02", "join-args-positional", (I, '        return self._relation(\n            id,\n            join_on="child",\n            join_to="parent",', '        return self._relation(\n            id,\n            "child",\n            "parent",')),
    # ------------------------------------------------------------------ C03
    M("C03", "extent-max-start", C, '"""\n                        SELECT MIN(start), MAX(end), strand, seqid', '"""\n                        SELECT MAX(start), MAX(end), strand, seqid', "R2"),
    M("C03", "extent-no-type-filter", C, '                        WHERE parent = ? AND featuretype == ?\n                        """,\n                        (transcript_id, self.subfeature),',
      '                        WHERE parent = ?\n                        """,\n                        (transcript_id,),', "R2"),
    M("C03", "flags-swapped", C, "                if not self.disable_infer_transcripts:\n                    # transcript extent", "                if not self.disable_infer_genes:\n                    # transcript extent", "R2"),
    M("C03", "transcript-link-level-2", C, "relations.append((parent, f.id, 1))", "relations.append((parent, f.id, 2))", "R1"),
    M("C03", "derived-collision-replace", C, 'fixed, final_strategy = self._do_merge(f, "merge")', 'fixed, final_strategy = self._do_merge(f, "replace")', "R4"),
    M("C03", "routing-typo", C, 'elif dialect["fmt"] == "gtf":', 'elif dialect["fmt"] == "gft":', "R5"),
    M("C03", "self-relation-guard-dropped", C, "                if parent != f.id:\n                    relations.append((parent, f.id, 1))", "                if True:\n                    relations.append((parent, f.id, 1))", "R6"),
    M("C03", "pair-query-any-level", C, "                    AND relations.level = 1\n                )", "                )", "R2"),
    M("C03", "record-start-end-swapped", C, "                                    transcript_id,\n                                    seqid,\n                                    transcript_start,\n                                    transcript_end,",
      "                                    transcript_id,\n                                    seqid,\n                                    transcript_end,\n                                    transcript_start,", "R2"),
    M("C03", "gtf-default-idspec", C, 'id_spec = id_spec or {"gene": "gene_id", "transcript": "transcript_id"}', 'id_spec = id_spec or {"gene": "gene_id", "transcript": "gene_id"}', "R5"),
    T("C03", "rename-reader-keys", (C, "            keys = [\n                \"parent\",", "            field_names = [\n                \"parent\","), (C, "dict(list(zip(keys, line.strip()", "dict(list(zip(field_names, line.strip()")),
    T("C03", "guard-as-equality-else", (C, "                if parent != f.id:\n                    relations.append((parent, f.id, 1))", "                if not (parent != f.id):\n                    pass\n                else:\n                    relations.append((parent, f.id, 1))")),
    # ------------------------------------------------------------------ C04
    M("C04", "prefix-slice-13", C, "self._increment_featuretype_autoid(_id[14:])", "self._increment_featuretype_autoid(_id[13:])", "R2"),
    M("C04", "multi-value-check-off", C, "                        if len(f.attributes[k]) > 1:", "                        if len(f.attributes[k]) > 1 and False:", "R3"),
    M("C04", "miss-returns-autoincrement", C, "                    except (KeyError, IndexError):\n                        pass", "                    except (KeyError, IndexError):\n                        return self._increment_featuretype_autoid(f.featuretype)", "R1"),
    M("C04", "format-before-increment", C, '        self._autoincrements[key] += 1\n        return "%s_%s" % (key, self._autoincrements[key])',
      '        new_id = "%s_%s" % (key, self._autoincrements[key])\n        self._autoincrements[key] += 1\n        return new_id', "R4"),
    M("C04", "format-no-underscore", C, 'return "%s_%s" % (key, self._autoincrements[key])', 'return "%s%s" % (key, self._autoincrements[key])', "R4"),
    M("C04", "insert-or-replace", K, '    "INSERT INTO features ("', '    "INSERT OR REPLACE INTO features ("', "R5"),
    M("C04", "absent-key-returns-none", I, "        if results is None:\n            raise FeatureNotFoundError(key)", "        if results is None:\n            return None", "R6"),
    M("C04", "callable-result-unchecked", C, "                _id = k(f)\n                if _id:", "                _id = k(f)\n                if True:", "R1"),
    M("C04", "lookup-like", I, '            c.execute(constants._SELECT + " WHERE id = ?", (key,))', '            c.execute(constants._SELECT + " WHERE id >= ?", (key,))', "R6"),
    T("C04", "fstring-key", (C, 'return "%s_%s" % (key, self._autoincrements[key])', 'return f"{key}_{self._autoincrements[key]}"')),
    T("C04", "prefix-len-computed", (C, "self._increment_featuretype_autoid(_id[14:])", 'self._increment_featuretype_autoid(_id[len("autoincrement:"):])')),
    T("C04", "absent-key-not-results", (I, "        if results is None:\n            raise FeatureNotFoundError(key)", "        if not results:\n            raise FeatureNotFoundError(key)")),
    # ------------------------------------------------------------------ C05
    M("C05", "gtf-forced-update-misbound", C, "                            % _set_clause,\n                            values,\n", "                            % _set_clause,\n                            values[:-1],\n"),
    M("C05", "warning-returns-feature", C, "            return None, merge_strategy", "            return f, merge_strategy", "R1"),
    M("C05", "compared-columns-short", C, "set(constants._gffkeys[:-1]).difference(self.force_merge_fields)", "set(constants._gffkeys[:-2]).difference(self.force_merge_fields)", "R2"),
    M("C05", "no-dedup", C, "merged_attributes[k] = list(set(v))", "merged_attributes[k] = list(v)", "R3"),
    M("C05", "duplicate-not-remembered", C, "                self._add_duplicate(orig_id, uniqued_feature.id)\n", "                pass\n", "R4"),
    M("C05", "create-unique-by-type", C, "f.id = self._increment_featuretype_autoid(f.id)", "f.id = self._increment_featuretype_autoid(f.featuretype)", "R6"),
    M("C05", "unknown-strategy-silent", C, "        else:\n            raise ValueError(\"Invalid merge strategy '%s'\" % (merge_strategy))", "        else:\n            return f, merge_strategy", "R1"),
    M("C05", "gff-warning-links-kept-feature", C,
      '                    continue\n                if final_strategy == "merge":\n                    c.execute(\n                        """\n                        UPDATE features SET attributes = ?\n                        WHERE id = ?\n                        """,\n                        (helpers._jsonify(fixed.attributes), fixed.id),\n                    )\n\n',
      '                    pass\n                if final_strategy == "merge":\n                    c.execute(\n                        """\n                        UPDATE features SET attributes = ?\n                        WHERE id = ?\n                        """,\n                        (helpers._jsonify(fixed.attributes), fixed.id),\n                    )\n\n', "R5"),
    M("C05", "gff-replace-inserts", C, '                elif final_strategy == "replace":\n                    self._replace(f, c)\n\n', '                elif final_strategy == "replace":\n                    self._insert(f, c)\n\n', "R1"),
    M("C05", "start-end-forcible", C, 'if set(["start", "end"]).intersection(force_merge_fields):', 'if set(["start"]).intersection(force_merge_fields):', "R2"),
    M("C05", "candidates-by-newid", C, "            duplicates.newid = features.id WHERE duplicates.idspecid = ?", "            duplicates.newid = features.id WHERE duplicates.newid = ?", "R5"),
    T("C05", "gtf-binds-tuple", (C, "                            % _set_clause,\n                            values,\n", "                            % _set_clause,\n                            tuple(values),\n")),
    # ------------------------------------------------------------------ C06
    M("C06", "overlap-strict", H, '"features.seqid = ? AND features.start <= ? " "AND features.end >= ?"', '"features.seqid = ? AND features.start < ? " "AND features.end >= ?"', "R1"),
    M("C06", "overlap-args-unswapped", H, "            args.extend([seqid, end, start])", "            args.extend([seqid, start, end])", "R1"),
    M("C06", "region-bins-in-overlap-mode", I, "if (start is not None) and (end is not None) and completely_within:", "if (start is not None) and (end is not None):", "R2"),
    M("C06", "astuple-stale-bin", F, "                self.calc_bin(),\n            )\n        return (", "                self.bin,\n            )\n        return (", "R3"),
    M("C06", "region-feature-strand", I, "                start = region.start\n                end = region.end\n", "                start = region.start\n                end = region.end\n                strand = region.strand\n", "R5"),
    M("C06", "region-guard-off-by-one", I, "if start < bins.MAX_CHROM_SIZE and end < bins.MAX_CHROM_SIZE:", "if start <= bins.MAX_CHROM_SIZE and end <= bins.MAX_CHROM_SIZE:", "R2"),
    M("C06", "make-query-guard-dropped", H, "        if in_range and len(_bins) < 900:", "        if len(_bins) < 900:", "R2"),
    M("C06", "region-within-strict", I, '            start_op = ">="\n', '            start_op = ">"\n', "R1"),
    M("C06", "region-one-sided-wrong-side", I, '            start_op = "<"\n            end_op = ">"\n', '            start_op = ">"\n            end_op = "<"\n', "R1"),
    M("C06", "limit-bins-swapped", H, "_bins = bins.bins(int(start), int(end), one=False)", "_bins = bins.bins(int(end), int(start), one=False)", "R2"),
    M("C06", "calc-bin-from-end-only", F, "_bin = bins.bins(self.start, self.end, one=True)", "_bin = bins.bins(self.end, self.end, one=True)", "R3"),
    T("C06", "limit-conjuncts-reordered", (H, '"features.seqid = ? AND features.start <= ? " "AND features.end >= ?"', '"features.start <= ? AND features.seqid = ? " "AND features.end >= ?"'),
      (H, "            args.extend([seqid, end, start])", "            args.extend([end, seqid, start])")),
    T("C06", "rename-bins-local", (H, "_bins", "binset", "all")),
    T("C06", "region-or-as-two-conjuncts", (I, """                \"\"\"(
                ({region_start} <= start AND {region_end} >= start) OR
                ({region_start} >= start AND {region_end} <= end) OR
                ({region_start} <= end AND {region_end} >= end)
            )\"\"\".format(""", """                \"\"\"(start <= {region_start} AND end >= {region_end})\"\"\".format(""")),
    # ------------------------------------------------------------------ C07
    M("C07", "separators-shortest-first", P, 'for sep in (" ; ", "; ", ";"):', 'for sep in (";", "; ", " ; "):', "R3"),
    M("C07", "multival-split-other-literal", P, '            if dialect["repeated keys"]:\n                quals[key].append(val)\n            else:\n                vals = val.split(",")',
      '            if dialect["repeated keys"]:\n                quals[key].append(val)\n            else:\n                vals = val.split("|")', "R3"),
    M("C07", "quote-added-single", P, "val_str = '\"%s\"' % val_str", "val_str = \"'%s'\" % val_str"),
    M("C07", "trailing-semicolon-not-replayed", P, '    if dialect["trailing semicolon"]:\n        parts_str += ";"', '    if False:\n        parts_str += ";"', "R6"),
    M("C07", "field-separator-not-recorded", P, '            dialect["field separator"] = sep\n            break', "            break"),
    M("C07", "order-not-replayed", P, '            return dialect["order"].index(x[0])', "            return 0", "R6"),
    M("C07", "quote-after-keyval-join", P, "                # Surround with quotes if needed\n                if dialect[\"quoted GFF2 values\"]:\n                    val_str = '\"%s\"' % val_str\n\n                # Typically \"=\" for GFF3 or \" \" otherwise\n                part = dialect[\"keyval separator\"].join([key, val_str])",
      "                part = dialect[\"keyval separator\"].join([key, val_str])\n                if dialect[\"quoted GFF2 values\"]:\n                    part = '\"%s\"' % part"),
    T("C07", "rename-parts-str", (P, "parts_str", "joined", "all")),
]
