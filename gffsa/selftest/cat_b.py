"""Self-test catalogue, properties C08-C14."""
from . import Variant

F, H, C, I, K, P, IT, INS, B = ("gffutils/feature.py", "gffutils/helpers.py", "gffutils/create.py", "gffutils/interface.py",
                                "gffutils/constants.py", "gffutils/parser.py", "gffutils/iterators.py", "gffutils/inspect.py", "gffutils/bins.py")


def M(pid, name, file, old, new, rule=None):
    return Variant(pid, name, "mutant", [(file, old, new)], rule)


def MM(pid, name, edits, rule=None):
    return Variant(pid, name, "mutant", edits, rule)


def T(pid, name, *edits):
    return Variant(pid, name, "twin", list(edits))


VARIANTS = [
    # ------------------------------------------------------------------ C08
    M("C08", "leading-space-filter-dropped", P, 'if any([i[0] == " " for i in vals if i]):', 'if any([i[0] == " " for i in vals]):', "R4"),
    M("C08", "percent-not-encoded", P, '_to_quote = "\\n\\t\\r%;=&,"', '_to_quote = "\\n\\t\\r;=&,"', "R1"),
    M("C08", "decode-non-gff3", P, 'if not constants.ignore_url_escape_characters and dialect["fmt"] == "gff3":', 'if not constants.ignore_url_escape_characters and dialect["fmt"] != "gff3":', "R2"),
    M("C08", "lowercase-hex", P, 'res = "%{:02X}".format(ord(b))', 'res = "%{:02x}".format(ord(b))', "R3"),
    M("C08", "second-part-index", P, "if gff3_kw_pat.match(parts[0]):", "if gff3_kw_pat.match(parts[1]):", "R4"),
    M("C08", "empty-guard-dropped", P, "    if not keyval_str:\n        return quals, dialect\n", "    if keyval_str is None:\n        return quals, dialect\n", "R4"),
    M("C08", "quote-guard-dropped", P, "        if len(val) > 0 and val[0] == '\"' and val[-1] == '\"':\n            val = val[1:-1]\n            dialect[\"quoted GFF2 values\"] = True",
      "        if val[0] == '\"' and val[-1] == '\"':\n            val = val[1:-1]\n            dialect[\"quoted GFF2 values\"] = True", "R4"),
    M("C08", "encode-always", P, '    if constants.ignore_url_escape_characters or dialect["fmt"] != "gff3":', '    if constants.ignore_url_escape_characters:', "R2"),
    M("C08", "unquote-plus", P, "unquoted = [urllib.parse.unquote(v) for v in vals]", "unquoted = [urllib.parse.unquote_plus(v) for v in vals]", "R2"),
    M("C08", "attr-column-unguarded", F, "    try:\n        attr_string = fields[8]\n    except IndexError:\n        attr_string = \"\"\n", "    attr_string = fields[8]\n", "R4"),
    M("C08", "semicolon-loop-while", P, "    if keyval_str[-1] == \";\":\n        keyval_str = keyval_str[:-1]\n        dialect[\"trailing semicolon\"] = True",
      "    while keyval_str[-1] == \";\":\n        keyval_str = keyval_str[:-1]\n        dialect[\"trailing semicolon\"] = True"),
    T("C08", "truthiness-instead-of-len", (P, "if len(val) > 0 and val[0] == '\"' and val[-1] == '\"':", "if val and val[0] == '\"' and val[-1] == '\"':", "all")),
    T("C08", "percent-format-encoder", (P, 'res = "%{:02X}".format(ord(b))', 'res = "%%%02X" % ord(b)')),
    # ------------------------------------------------------------------ C09
    M("C09", "weight-one", H, "        weight = len(feature.attributes)", "        weight = 1", "R1"),
    M("C09", "ascending-sort", H, "vs = sorted(v.items(), key=lambda x: x[1], reverse=True)", "vs = sorted(v.items(), key=lambda x: x[1], reverse=False)", "R1"),
    M("C09", "last-wins", H, "        final_dialect[k] = vs[0][0]", "        final_dialect[k] = vs[-1][0]", "R1"),
    M("C09", "yield-before-dialect", IT, "            i.dialect = self.dialect\n            if self.transform:\n                i = self.transform(i)\n                if i:\n                    yield i\n            else:\n                yield i",
      "            if self.transform:\n                i = self.transform(i)\n                if i:\n                    yield i\n            else:\n                i.dialect = self.dialect\n                yield i", "R2"),
    M("C09", "peek-despite-dialect", IT, "        elif dialect is not None:\n            self.dialect = dialect\n        else:",
      "        elif dialect is not None:\n            self.dialect = dialect\n            self._peek = self.peek(checklines)\n        else:", "R3"),
    M("C09", "gtf-without-quoting", P, 'if (dialect["keyval separator"] == " ") and (dialect["quoted GFF2 values"]):', 'if dialect["keyval separator"] == " ":', "R6"),
    M("C09", "supplied-dialect-overridden", C, "    if dialect is None:\n        dialect = iterator.dialect\n", "    dialect = iterator.dialect\n", "R3"),
    M("C09", "secondary-sort-key", H, "vs = sorted(v.items(), key=lambda x: x[1], reverse=True)", "vs = sorted(v.items(), key=lambda x: (x[1], str(x[0])), reverse=True)", "R1"),
    M("C09", "key-pattern-loosened", P, 'gff3_kw_pat = re.compile(r"\\w+=")', 'gff3_kw_pat = re.compile(r"\\w*=")', "R6"),
    M("C09", "repeated-keys-always", P, '        if key in quals:\n            dialect["repeated keys"] = True\n        else:\n            quals[key] = []', '        dialect["repeated keys"] = True\n        if key not in quals:\n            quals[key] = []', "R6"),
    M("C09", "order-by-frequency", H, "            if o not in final_order:\n                final_order.append(o)", "            final_order.append(o)", "R1"),
    T("C09", "winner-by-max", (H, "        vs = sorted(v.items(), key=lambda x: x[1], reverse=True)\n", "        vs = max(v.items(), key=lambda x: x[1])\n"),
      (H, "        final_dialect[k] = vs[0][0]", "        final_dialect[k] = vs[0]")),
    # ------------------------------------------------------------------ C10
    MM("C10", "backup-after-delete", [
        (I, '        if make_backup:\n            if isinstance(self.dbfn, str):\n                shutil.copy2(self.dbfn, self.dbfn + ".bak")\n\n        c = self.conn.cursor()\n        query1', "        c = self.conn.cursor()\n        query1"),
        (I, "        self.conn.commit()\n        return self\n\n    def update(", '        if make_backup:\n            if isinstance(self.dbfn, str):\n                shutil.copy2(self.dbfn, self.dbfn + ".bak")\n        self.conn.commit()\n        return self\n\n    def update(')], "R1"),
    MM("C10", "delete-parent-only", [(I, "        DELETE FROM relations WHERE parent = ? OR child = ?", "        DELETE FROM relations WHERE parent = ?"),
                                     (I, "            c.execute(query2, (_id, _id))", "            c.execute(query2, (_id,))")], "R2"),
    M("C10", "counters-copied", I, 'kwargs["_autoincrements"] = self._autoincrements', 'kwargs["_autoincrements"] = collections.defaultdict(int, self._autoincrements)', "R3"),
    M("C10", "counters-plain-insert", C, "            INSERT OR REPLACE INTO autoincrements VALUES (?, ?)", "            INSERT INTO autoincrements VALUES (?, ?)", "R3"),
    M("C10", "update-skips-finalize", I, "        # Note that the autoincrements gets updated here\n        db._finalize()\n", "        # Note that the autoincrements gets updated here\n", "R3"),
    M("C10", "backup-extra-condition", I, "        from gffutils import iterators\n\n        if make_backup:", "        from gffutils import iterators\n\n        if make_backup and not kwargs:", "R1"),
    M("C10", "add-relation-reversed", I, "            (parent.id, child.id, level),", "            (child.id, parent.id, level),", "R6"),
    M("C10", "backup-wrong-target", I, '        from gffutils import iterators\n\n        if make_backup:\n            if isinstance(self.dbfn, str):\n                shutil.copy2(self.dbfn, self.dbfn + ".bak")',
      '        from gffutils import iterators\n\n        if make_backup:\n            if isinstance(self.dbfn, str):\n                shutil.copy2(self.dbfn + ".bak", self.dbfn)', "R1"),
    M("C10", "empty-update-after-import", I, "        if not data._peek:\n            return self\n\n        kwargs[\"_autoincrements\"] = self._autoincrements\n",
      "        kwargs[\"_autoincrements\"] = self._autoincrements\n"),
    M("C10", "delete-one-of-many", I, "        for feature in features:\n            if isinstance(feature, str):\n                _id = feature\n            else:\n                _id = feature.id\n            c.execute(query1, (_id,))\n            c.execute(query2, (_id, _id))",
      "        for feature in features:\n            if isinstance(feature, str):\n                _id = feature\n            else:\n                _id = feature.id\n        c.execute(query1, (_id,))\n        c.execute(query2, (_id, _id))", "R2"),
    T("C10", "delete-in-form", (I, "        DELETE FROM relations WHERE parent = ? OR child = ?", "        DELETE FROM relations WHERE ? IN (parent, child)"),
      (I, "            c.execute(query2, (_id, _id))", "            c.execute(query2, (_id,))")),
    T("C10", "backup-helper", (I, '        if make_backup:\n            if isinstance(self.dbfn, str):\n                shutil.copy2(self.dbfn, self.dbfn + ".bak")\n\n        c = self.conn.cursor()\n        query1',
                               "        self._backup(make_backup)\n\n        c = self.conn.cursor()\n        query1"),
      (I, "    def update(self, data, make_backup=True, **kwargs):", '    def _backup(self, make_backup):\n        if make_backup:\n            if isinstance(self.dbfn, str):\n                shutil.copy2(self.dbfn, self.dbfn + ".bak")\n\n    def update(self, data, make_backup=True, **kwargs):')),
    # ------------------------------------------------------------------ C11
    MM("C11", "strand-args-before-limit", [
        (H, '    if strand:\n        # e.g., "strand = \'+\'"\n        d["STRAND"] = "features.strand = ?"\n        args.append(strand)\n\n', ""),
        (H, "    if limit:\n        # Restrict to a genomic region.", '    if strand:\n        d["STRAND"] = "features.strand = ?"\n        args.append(strand)\n\n    if limit:\n        # Restrict to a genomic region.')], "R1"),
    M("C11", "asc-desc-swapped", H, '        if reverse:\n            direction = "DESC"\n        else:\n            direction = "ASC"', '        if reverse:\n            direction = "ASC"\n        else:\n            direction = "DESC"', "R2"),
    M("C11", "length-not-valid", H, 'valid_order_by = constants._gffkeys_extra + ["file_order", "length"]', 'valid_order_by = constants._gffkeys_extra + ["file_order"]'),
    M("C11", "count-by-seqid", I, "                SELECT count() FROM features\n                WHERE featuretype = ?", "                SELECT count() FROM features\n                WHERE seqid = ?", "R3"),
    M("C11", "order-by-str-unvalidated", H, "        if isinstance(order_by, str):\n            order_by = [order_by]\n\n        for k in order_by:",
      "        if isinstance(order_by, str):\n            _order_by.append(order_by)\n            order_by = []\n\n        for k in order_by:", "R2"),
    M("C11", "featuretype-in-list-short", H, '",".join(["?" for _ in featuretype])', '",".join(["?" for _ in featuretype[1:]])', "R1"),
    M("C11", "second-where", H, '                d[i] = "AND " + d[i]', '                d[i] = "WHERE " + d[i]', "R4"),
    M("C11", "all-features-drops-strand", I, "            limit=limit,\n            strand=strand,\n            featuretype=featuretype,\n            order_by=order_by,\n            reverse=reverse,\n            completely_within=completely_within,\n        )\n        for i in self._execute(query, args):\n            yield self._feature_returner(**i)\n\n    def featuretypes",
      "            limit=limit,\n            featuretype=featuretype,\n            order_by=order_by,\n            reverse=reverse,\n            completely_within=completely_within,\n        )\n        for i in self._execute(query, args):\n            yield self._feature_returner(**i)\n\n    def featuretypes", "R1"),
    M("C11", "seqids-not-distinct", I, "            SELECT DISTINCT seqid from features", "            SELECT seqid from features", "R3"),
    M("C11", "length-as-sum", H, 'k = "(end - start)"', 'k = "(end + start)"', "R2"),
    T("C11", "direction-ifexp", (H, '        if reverse:\n            direction = "DESC"\n        else:\n            direction = "ASC"', '        direction = "DESC" if reverse else "ASC"')),
    T("C11", "count-star", (I, "                SELECT count() FROM features\n                WHERE featuretype = ?", "                SELECT count(*) FROM features\n                WHERE featuretype = ?")),
    # ------------------------------------------------------------------ C12
    M("C12", "range-excludes-stop", B, "bins.update(list(range(offset + start, offset + stop + 1)))", "bins.update(list(range(offset + start, offset + stop)))", "R4"),
    M("C12", "stop-not-shifted", B, "        start >>= NEXT_SHIFT\n        stop >>= NEXT_SHIFT", "        start >>= NEXT_SHIFT", "R4"),
    M("C12", "guard-strict", B, "if start >= MAX_CHROM_SIZE or stop >= MAX_CHROM_SIZE:", "if start > MAX_CHROM_SIZE or stop >= MAX_CHROM_SIZE:", "R3"),
    M("C12", "offset-584", B, "    512 + 64 + 8 + 1,  # bins 585-73", "    512 + 64 + 8,  # bins 585-73", "R1"),
    M("C12", "first-shift-16", B, "FIRST_SHIFT = 17", "FIRST_SHIFT = 16", "R1"),
    M("C12", "set-mode-early-exit", B, "        # Move to the next level (8x larger bin size; i.e., 2**NEXT_SHIFT\n", "        if not one and start == stop:\n            return bins\n        # Move to the next level (8x larger bin size; i.e., 2**NEXT_SHIFT\n", "R4"),
    M("C12", "start-zero-unguarded", B, "    if start < COORD_OFFSETS[fmt]:", "    if start < 0:", "R2"),
    M("C12", "stop-offset-too", B, "    stop = (stop) >> FIRST_SHIFT", "    stop = (stop - COORD_OFFSETS[fmt]) >> FIRST_SHIFT", "R4"),
    M("C12", "one-result-without-offset", B, "                return offset + start", "                return start", "R4"),
    M("C12", "fallback-returns-zero", B, "    if stop < 0:\n        if one:\n            return 1", "    if stop < 0:\n        if one:\n            return 0", "R3"),
    T("C12", "precomputed-first-bin", (B, "        if one:\n            if start == stop:", "        first = offset + start\n        if one:\n            if start == stop:"),
      (B, "                return offset + start", "                return first"), (B, "bins.update(list(range(offset + start, offset + stop + 1)))", "bins.update(list(range(first, offset + stop + 1)))")),
    T("C12", "enumerate-offsets", (B, "    for offset in OFFSETS:\n        # Since we're going", "    for _level, offset in enumerate(OFFSETS):\n        # Since we're going")),
    T("C12", "merged-negative-guards", (B, "    if start < COORD_OFFSETS[fmt]:\n        if one:\n            return 1\n        else:\n            return set([1])\n\n    if stop < 0:", "    if start < COORD_OFFSETS[fmt] or stop < 0:")),
    # ------------------------------------------------------------------ C13
    M("C13", "break-before-append", IT, "            initial.append(feature)\n            if i == n:\n                break\n\n        # If self.data is generator-like",
      "            if i == n:\n                break\n            initial.append(feature)\n\n        # If self.data is generator-like", "R2"),
    M("C13", "chain-reversed", IT, "self.data = itertools.chain(initial, self.data)", "self.data = itertools.chain(self.data, initial)", "R2"),
    M("C13", "rechain-disabled", IT, 'if hasattr(self.data, "__next__"):', 'if hasattr(self.data, "__next__") and n > 0:', "R2"),
    M("C13", "transform-twice", IT, "            self.current_item_number = i\n            yield feature", "            self.current_item_number = i\n            if self.transform:\n                feature = self.transform(feature)\n            yield feature", "R3"),
    M("C13", "rewrap-iterator", IT, "    if isinstance(data, _BaseIterator):\n        return data\n", "    if isinstance(data, _BaseIterator):\n        data = iter(data)\n", "R1"),
    M("C13", "create-db-original-data", C, '    kwargs["data"] = iterator\n', '    kwargs["data"] = data\n', "R4"),
    M("C13", "count-only-with-attributes", INS, "        feature_count += 1\n        if limit", "        if f.attributes:\n            feature_count += 1\n        if limit", "R5"),
    M("C13", "second-peek", C, '    kwargs["checklines"] = 0\n', "", "R4"),
    M("C13", "falsy-transform-yielded", IT, "                i = self.transform(i)\n                if i:\n                    yield i", "                i = self.transform(i)\n                if i is not None:\n                    yield i", "R3"),
    M("C13", "feature-iterator-class-left-out", IT, "    if isinstance(data, _BaseIterator):\n        return data\n", "    if isinstance(data, (_FileIterator, _UrlIterator)):\n        return data\n", "R1"),
    M("C13", "limit-before-count", INS, "        feature_count += 1\n        if limit and feature_count == limit:\n            break\n", "        if limit and feature_count == limit:\n            break\n        feature_count += 1\n", "R5"),
    T("C13", "all-classes-listed", (IT, "    if isinstance(data, _BaseIterator):\n        return data\n", "    if isinstance(data, (_FileIterator, _FeatureIterator)):\n        return data\n")),
    T("C13", "peek-with-islice", (IT, "        initial = []\n        for i, feature in enumerate(self.data):\n            initial.append(feature)\n            if i == n:\n                break\n\n        # If self.data is generator-like",
                                  "        initial = list(itertools.islice(self.data, n + 1))\n\n        # If self.data is generator-like")),
    # ------------------------------------------------------------------ C14
    MM("C14", "comment-test-first", [
        (IT, '                if line.startswith("##"):\n                    self._directive_handler(line)\n                    continue\n\n                if line.startswith(("#")) or len(line) == 0:\n                    continue\n',
         '                if line.startswith(("#")) or len(line) == 0:\n                    continue\n\n                if line.startswith("##"):\n                    self._directive_handler(line)\n                    continue\n')], "R1"),
    M("C14", "fasta-continue", IT, '                if line == "##FASTA" or line.startswith(">"):\n                    return', '                if line == "##FASTA" or line.startswith(">"):\n                    continue', "R1"),
    M("C14", "strip-one-hash", IT, "        self.directives.append(directive[2:])", "        self.directives.append(directive[1:])", "R2"),
    M("C14", "directives-not-persisted", C, "        c.executemany(\n            \"\"\"\n                      INSERT INTO directives VALUES (?)\n                      \"\"\",\n            ((i,) for i in directives),\n        )", "        pass", "R4"),
    M("C14", "directives-sorted", C, "            ((i,) for i in directives),", "            ((i,) for i in sorted(directives)),", "R4"),
    M("C14", "directives-rebound", IT, "        del self.directives[:]\n", "        self.directives = []\n", "R3"),
    M("C14", "header-not-a-stop", IT, 'if line == "##FASTA" or line.startswith(">"):', 'if line == "##FASTA":', "R1"),
    M("C14", "importer-copies-directives", C, "        self.directives = directives\n", "        self.directives = list(directives)\n", "R3"),
    M("C14", "blank-lines-parsed", IT, 'if line.startswith(("#")) or len(line) == 0:', 'if line.startswith(("#")):', "R1"),
    T("C14", "dispatch-on-prefix", (IT, '                if line.startswith("##"):\n                    self._directive_handler(line)', '                if line[:2] == "##":\n                    self._directive_handler(line)')),
    T("C14", "clear-method", (IT, "        del self.directives[:]\n", "        self.directives.clear()\n")),
]
