"""Self-test catalogue, properties C15-C20."""
from . import Variant

F, H, C, I, K, P, IT, A, MC, CV = ("gffutils/feature.py", "gffutils/helpers.py", "gffutils/create.py", "gffutils/interface.py",
                                   "gffutils/constants.py", "gffutils/parser.py", "gffutils/iterators.py", "gffutils/attributes.py",
                                   "gffutils/merge_criteria.py", "gffutils/convert.py")


def M(pid, name, file, old, new, rule=None):
    return Variant(pid, name, "mutant", [(file, old, new)], rule)


def MM(pid, name, edits, rule=None):
    return Variant(pid, name, "mutant", edits, rule)


def T(pid, name, *edits):
    return Variant(pid, name, "twin", list(edits))


VARIANTS = [
    # ------------------------------------------------------------------ C15
    M("C15", "start-not-advanced", I, '            d["start"] += 1\n            d["end"] -= 1', '            d["end"] -= 1', "R1"),
    M("C15", "suppress-one-base-gaps", I, '            if d["start"] > d["end"]:\n                return None', '            if d["start"] >= d["end"]:\n                return None'),
    M("C15", "gap-ends-at-next-end", I, '            interfeature["end"] = f.start', '            interfeature["end"] = f.end', "R1"),
    M("C15", "strand-test-inverted", I, "            if last_feature.strand != f.strand:", "            if last_feature.strand == f.strand:", "R4"),
    MM("C15", "minus-labels-swapped", [
        (I, '                if side == "left":\n                    if strand == "+":\n                        new_featuretype = "five_prime_cis_splice_site"\n                    elif strand == "-":\n                        new_featuretype = "three_prime_cis_splice_site"',
         '                if side == "left":\n                    if strand == "+":\n                        new_featuretype = "five_prime_cis_splice_site"\n                    elif strand == "-":\n                        new_featuretype = "five_prime_cis_splice_site"')], "R6"),
    M("C15", "splice-site-three-bases", I, "                        splice_site.end = splice_site.start + 1", "                        splice_site.end = splice_site.start + 2", "R6"),
    M("C15", "introns-by-end-order", I, '            exons = self.children(\n                child, level=1, featuretype=exon_featuretype, order_by="start"\n            )\n            for intron in self.interfeatures(',
      '            exons = self.children(\n                child, level=1, featuretype=exon_featuretype, order_by="end"\n            )\n            for intron in self.interfeatures(', "R7"),
    M("C15", "introns-level-2", I, '            exons = self.children(\n                child, level=1, featuretype=exon_featuretype, order_by="start"\n            )\n            for intron in self.interfeatures(',
      '            exons = self.children(\n                child, level=2, featuretype=exon_featuretype, order_by="start"\n            )\n            for intron in self.interfeatures(', "R7"),
    M("C15", "nfeatures-not-reset", I, "                yield new_feature\n            nfeatures = 1\n\n            last_feature = f", "                yield new_feature\n\n            last_feature = f", "R3"),
    M("C15", "seqid-change-falls-through", I, "                interfeature = _init_interfeature(f)\n                last_feature = f\n                nfeatures = 1\n                continue\n\n            # Otherwise, we've already seen",
      "                interfeature = _init_interfeature(f)\n                nfeatures = 1\n\n            # Otherwise, we've already seen", "R3"),
    M("C15", "id-joined-by-comma", I, '                new_id = "-".join(new_feature.attributes["ID"])', '                new_id = ",".join(new_feature.attributes["ID"])', "R5"),
    M("C15", "previous-not-advanced", I, "            nfeatures = 1\n\n            last_feature = f\n", "            nfeatures = 1\n\n", "R1"),
    M("C15", "attributes-of-next-only", I, "                    attribute_func(last_feature.attributes),\n                    attribute_func(f.attributes),", "                    attribute_func(f.attributes),\n                    attribute_func(f.attributes),", "R5"),
    M("C15", "input-mutated", I, "            interfeature[\"attributes\"] = new_attributes\n", "            interfeature[\"attributes\"] = new_attributes\n            f.attributes[\"seen\"] = [\"1\"]\n"),
    T("C15", "offsets-at-assignment", (I, '            interfeature["start"] = last_feature.stop\n            interfeature["end"] = f.start', '            interfeature["start"] = last_feature.stop + 1\n            interfeature["end"] = f.start - 1'),
      (I, '            d["start"] += 1\n            d["end"] -= 1\n', "")),
    T("C15", "labels-from-dict", (I, '''                new_featuretype = "splice_site"
                if side == "left":
                    if strand == "+":
                        new_featuretype = "five_prime_cis_splice_site"
                    elif strand == "-":
                        new_featuretype = "three_prime_cis_splice_site"

                if side == "right":
                    if strand == "+":
                        new_featuretype = "three_prime_cis_splice_site"
                    elif strand == "-":
                        new_featuretype = "five_prime_cis_splice_site"
''', '''                new_featuretype = {
                    ("left", "+"): "five_prime_cis_splice_site",
                    ("left", "-"): "three_prime_cis_splice_site",
                    ("right", "+"): "three_prime_cis_splice_site",
                    ("right", "-"): "five_prime_cis_splice_site",
                }.get((side, strand), "splice_site")
''')),
    # ------------------------------------------------------------------ C16
    M("C16", "head-not-copied", I, "                if len(feature_children) == 1:\n                    # Current merged is only child", "                if len(feature_children) == -1:\n                    # Current merged is only child", "R4"),
    M("C16", "end-shrinks", I, "                if feature.end > current_merged.end:", "                if feature.end < current_merged.end:", "R3"),
    M("C16", "id-not-reset-on-boundary", I, "                yield _finalize_merge(current_merged, feature_children)\n                current_merged = feature\n                feature_children = []\n                last_id = None",
      "                yield _finalize_merge(current_merged, feature_children)\n                current_merged = feature\n                feature_children = []", "R5"),
    M("C16", "pending-head-dropped", I, "                yield _finalize_merge(current_merged, feature_children)\n                current_merged = feature\n                feature_children = []\n                last_id = None",
      "                current_merged = feature\n                feature_children = []\n                last_id = None", "R1"),
    M("C16", "adjacent-not-merged", MC, "def overlap_end_inclusive(acc, cur, components):\n    return acc.start <= cur.start <= acc.end + 1", "def overlap_end_inclusive(acc, cur, components):\n    return acc.start <= cur.start <= acc.end", "R2"),
    M("C16", "merge-all-level-2", I, "self.add_relation(merged, child, 1, child_func=assign_child)", "self.add_relation(merged, child, 2, child_func=assign_child)", "R7"),
    M("C16", "splat-keeps-dialect", I, '                    del current_merged["dialect"]\n', "", "R6"),
    M("C16", "splat-keeps-children", I, '                    current_merged.pop("children", None)\n', "", "R6"),
    M("C16", "children-not-reset", I, "                yield _finalize_merge(current_merged, feature_children)\n                current_merged = feature\n                feature_children = []\n                last_id = None",
      "                yield _finalize_merge(current_merged, feature_children)\n                current_merged = feature\n                last_id = None", "R1"),
    M("C16", "criteria-args-swapped", I, "                criteria(current_merged, feature, feature_children)\n                for criteria in merge_criteria\n            ):\n                # Criteria satisfied, merge",
      "                criteria(feature, current_merged, feature_children)\n                for criteria in merge_criteria\n            ):\n                # Criteria satisfied, merge", "R1"),
    M("C16", "any-criterion-suffices", I, "            if all(\n                criteria(current_merged, feature, feature_children)", "            if any(\n                criteria(current_merged, feature, feature_children)", "R1"),
    M("C16", "final-head-not-emitted", I, "        if current_merged:\n            yield _finalize_merge(current_merged, feature_children)\n", "        if current_merged and feature_children:\n            yield _finalize_merge(current_merged, feature_children)\n", "R1"),
    M("C16", "len-without-plus-one", F, "        return self.stop - self.start + 1", "        return self.stop - self.start", "R8"),
    M("C16", "default-criteria-no-strand", I, "        features,\n        merge_criteria=(mc.seqid, mc.overlap_end_inclusive, mc.strand, mc.feature_type),", "        features,\n        merge_criteria=(mc.seqid, mc.overlap_end_inclusive, mc.feature_type),", "R2"),
    M("C16", "strand-criterion-on-seqid", MC, "def strand(acc, cur, components):\n    return acc.strand == cur.strand", "def strand(acc, cur, components):\n    return acc.seqid == cur.seqid", "R2"),
    M("C16", "merge-all-keeps-when-excluding", I, "                    if exclude_components:\n                        # Remove child features from DB\n                        self.delete(merged.children)", "                    if exclude_components:\n                        pass", "R7"),
    T("C16", "extents-by-min-max", (I, "                if feature.start < current_merged.start:\n                    # Extends prior, so set a new start position\n                    current_merged.start = feature.start",
                                    "                current_merged.start = min(current_merged.start, feature.start)"),
      (I, "                if feature.end > current_merged.end:\n                    # Extends further, so set a new stop position\n                    current_merged.end = feature.end",
       "                current_merged.end = max(current_merged.end, feature.end)")),
    T("C16", "children-pop-via-del-guard", (I, '                    current_merged.pop("children", None)\n', '                    if "children" in current_merged:\n                        del current_merged["children"]\n')),
    # ------------------------------------------------------------------ C17
    M("C17", "store-before-wrap", A, "        if not isinstance(v, (list, tuple)):\n            v = [v]\n        self._d[k] = v", "        self._d[k] = v\n        if not isinstance(v, (list, tuple)):\n            v = [v]", "R1"),
    M("C17", "raw-mapping-write", A, "        for k, v in dict(*args, **kwargs).items():\n            self[k] = v", "        self._d.update(dict(*args, **kwargs))", "R1"),
    M("C17", "jsonify-through-items", H, 'return json.dumps(x._d, separators=(",", ":"))', 'return json.dumps(dict(x.items()), separators=(",", ":"))', "R3"),
    M("C17", "second-arg-not-copied", H, "    new_d.update(copy.deepcopy(attr2))", "    new_d.update(attr2)", "R4"),
    M("C17", "union-with-repeats", H, "        return dict((k, sorted(set(v))) for k, v in new_d.items())", "        return dict((k, sorted(v)) for k, v in new_d.items())", "R4"),
    M("C17", "equality-on-id", F, "        return str(self) == str(other)", "        return self.id == other.id", "R5"),
    M("C17", "switch-read-on-set", A, "        if not isinstance(v, (list, tuple)):\n            v = [v]\n        self._d[k] = v", "        if not isinstance(v, (list, tuple)) and constants.always_return_list:\n            v = [v]\n        self._d[k] = v", "R2"),
    M("C17", "view-unwraps-always", A, "        if isinstance(v, list) and len(v) == 1:\n            v = v[0]", "        if isinstance(v, list) and len(v) >= 1:\n            v = v[0]", "R2"),
    M("C17", "hash-of-id", F, "        return hash(str(self))", "        return hash(self.id)", "R5"),
    M("C17", "feature-setitem-bypasses", F, "        else:\n            self.attributes[key] = value", "        else:\n            self.attributes._d[key] = value", "R1"),
    M("C17", "first-arg-mutated", H, "            if not isinstance(v, list):\n                v = [v]\n            new_d[k].extend(v)", "            if not isinstance(v, list):\n                v = [v]\n            v.extend(new_d[k])\n            new_d[k] = v", "R4"),
    M("C17", "bed12-leaves-switch", I, "        constants.always_return_list = orig\n", "", "R2"),
    T("C17", "wrap-types-reordered", (A, "if not isinstance(v, (list, tuple)):", "if not isinstance(v, (tuple, list)):")),
    # ------------------------------------------------------------------ C18
    M("C18", "chromstart-one-based", I, "        chromStart = feature.start - 1", "        chromStart = feature.start", "R1"),
    M("C18", "block-starts-shifted", I, "blockStarts = [i.start - 1 - chromStart for i in exons]", "blockStarts = [i.start - chromStart for i in exons]", "R1"),
    M("C18", "sequence-slice-one-based", F, "seq = fasta[self.chrom][self.start - 1 : self.stop]", "seq = fasta[self.chrom][self.start : self.stop]", "R1"),
    M("C18", "len-off-by-one", F, "        return self.stop - self.start + 1", "        return self.stop - self.start", "R1"),
    M("C18", "thick-fields-swapped", I, "            thickStart,\n            thickEnd,\n            itemRgb,", "            thickEnd,\n            thickStart,\n            itemRgb,"),
    M("C18", "span-check-weakened", I, "        if first != feature.start:", "        if first < feature.start:", "R3"),
    M("C18", "revcomp-plus", F, '        if use_strand and self.strand == "-":', '        if use_strand and self.strand == "+":', "R5"),
    M("C18", "id-used-before-lookup", I, "        feature = self[feature]\n        exons = list(\n            self.children(feature, featuretype=block_featuretype, order_by=\"start\")\n        )\n        if len(exons) == 0:\n            exons = [feature]\n",
      "        exons = list(\n            self.children(feature, featuretype=block_featuretype, order_by=\"start\")\n        )\n        if len(exons) == 0:\n            exons = [feature]\n        feature = self[feature]\n", "R4"),
    M("C18", "thickend-exclusive-twice", I, "                thickEnd = thick[-1].stop\n", "                thickEnd = thick[-1].stop - 1\n", "R1"),
    M("C18", "blocks-descending", I, '            self.children(feature, featuretype=block_featuretype, order_by="start")\n        )\n        if len(exons) == 0:',
      '            self.children(feature, featuretype=block_featuretype, order_by="start", reverse=True)\n        )\n        if len(exons) == 0:', "R1"),
    M("C18", "revcomp-ignores-flag", F, '        if use_strand and self.strand == "-":', '        if self.strand == "-":', "R5"),
    M("C18", "to-bed12-start-one-based", CV, "        f.start - 1,  # GTF -> BED coord system", "        f.start,  # GTF -> BED coord system", "R1"),
    M("C18", "space-joined", I, '        return "\\t".join(map(str, fields))\n\n    def seqids', '        return " ".join(map(str, fields))\n\n    def seqids', "R2"),
    T("C18", "block-starts-from-feature-start", (I, "blockStarts = [i.start - 1 - chromStart for i in exons]", "blockStarts = [i.start - feature.start for i in exons]")),
    T("C18", "revcomp-test-reordered", (F, '        if use_strand and self.strand == "-":', '        if self.strand == "-" and use_strand:')),
    # ------------------------------------------------------------------ C19
    M("C19", "create-if-not-exists", K, "CREATE TABLE features (", "CREATE TABLE IF NOT EXISTS features (", "R1"),
    M("C19", "populate-before-schema", C, "        self._init_tables()\n        self._populate_from_lines(self.iterator)", "        self._populate_from_lines(self.iterator)\n        self._init_tables()", "R1"),
    M("C19", "unlink-unconditional", C, "        if force:\n            if os.path.exists(dbfn):", "        if force or merge_strategy == \"replace\":\n            if os.path.exists(dbfn):", "R2"),
    M("C19", "region-caches-with-insert", I, "        c.execute(query, tuple(args))\n        for i in c:\n            yield self._feature_returner(**i)\n\n    def interfeatures",
      "        c.execute(query, tuple(args))\n        c.execute(\"INSERT INTO directives VALUES (?)\", (query,))\n        for i in c:\n            yield self._feature_returner(**i)\n\n    def interfeatures", "R3"),
    M("C19", "reader-writes", I, '        return self._relation(\n            id,\n            join_on="child",', '        self.analyze()\n        return self._relation(\n            id,\n            join_on="child",', "R3"),
    M("C19", "getitem-commits", I, "        results = c.fetchone()\n        # TODO: raise error if more than one key is found", "        results = c.fetchone()\n        self.conn.commit()\n        # TODO: raise error if more than one key is found", "R3"),
    M("C19", "schema-error-swallowed", C, "        c.executescript(constants.SCHEMA)\n        self.conn.commit()", "        try:\n            c.executescript(constants.SCHEMA)\n        except sqlite3.OperationalError:\n            pass\n        self.conn.commit()", "R1"),
    M("C19", "connect-before-unlink", C, "        if force:\n            if os.path.exists(dbfn):\n                os.unlink(dbfn)\n        self.dbfn = dbfn\n        self.id_spec = id_spec\n        if isinstance(dbfn, str):\n            conn = sqlite3.connect(dbfn)\n        else:\n            conn = dbfn\n",
      "        self.dbfn = dbfn\n        self.id_spec = id_spec\n        if isinstance(dbfn, str):\n            conn = sqlite3.connect(dbfn)\n        else:\n            conn = dbfn\n        if force:\n            if os.path.exists(dbfn):\n                os.unlink(dbfn)\n", "R2"),
    M("C19", "merge-persists-counters", I, "                        self._autoincrements[current_merged.featuretype] += 1\n", "                        self._autoincrements[current_merged.featuretype] += 1\n                        self.conn.execute(\"INSERT OR REPLACE INTO autoincrements VALUES (?, ?)\", (current_merged.featuretype, 1))\n", "R3"),
    M("C19", "schema-drops-first", K, 'SCHEMA = """\n\nCREATE TABLE features (', 'SCHEMA = """\nDROP TABLE IF EXISTS features;\n\nCREATE TABLE features (', "R1"),
    T("C19", "listing-through-helper", (I, '        c = self.conn.cursor()\n        c.execute(\n            """\n            SELECT DISTINCT featuretype from features\n            """\n        )\n        for (i,) in c:\n            yield i\n',
                                        '        for i in self._distinct("featuretype"):\n            yield i\n\n    def _distinct(self, column):\n        c = self.conn.cursor()\n        c.execute("SELECT DISTINCT %s from features" % column)\n        for (i,) in c:\n            yield i\n')),
    # ------------------------------------------------------------------ C20
    M("C20", "fixed-temp-name", C, "        tmp = tempfile.NamedTemporaryFile(delete=False, suffix=suffix).name\n        with open(tmp, \"w\") as fout:\n\n            # Here we look",
      "        tmp = os.path.join(tempfile.gettempdir(), \"gffutils.tmp\")\n        with open(tmp, \"w\") as fout:\n\n            # Here we look", "R1"),
    M("C20", "gtf-tempfile-kept", C, "        if not self._keep_tempfiles:\n            os.unlink(fout.name)\n\n        # TODO: recreate indexes?", "        # TODO: recreate indexes?", "R2"),
    M("C20", "keep-test-inverted", C, "        if not self._keep_tempfiles:\n            os.unlink(fout.name)\n\n\nclass _GTFDBCreator", "        if self._keep_tempfiles:\n            os.unlink(fout.name)\n\n\nclass _GTFDBCreator", "R2"),
    M("C20", "early-return-before-unlink", C, "        self.conn.commit()\n\n        if not self._keep_tempfiles:\n            os.unlink(fout.name)\n\n\nclass _GTFDBCreator",
      "        self.conn.commit()\n        if self.verbose == \"debug\":\n            return\n\n        if not self._keep_tempfiles:\n            os.unlink(fout.name)\n\n\nclass _GTFDBCreator", "R2"),
    M("C20", "side-file-next-to-db", C, "        self.warnings = self.iterator.warnings\n", "        self.warnings = self.iterator.warnings\n        with open(str(self.dbfn) + \".log\", \"w\") as log:\n            log.write(\"done\")\n"),
    M("C20", "string-tempfile-kept", IT, "            weakref.finalize(iterator, _remove_tempfile, tmp.name)\n", "", "R2"),
    M("C20", "module-level-cache", C, "        self._data = data\n", "        self._data = data\n        constants.INDEXES = []\n", "R3"),
    M("C20", "gtf-temp-in-cwd", C, "        tmp = tempfile.NamedTemporaryFile(delete=False, suffix=suffix).name\n        with open(tmp, \"w\") as fout:\n            self._tmpfile = tmp",
      "        tmp = tempfile.NamedTemporaryFile(delete=False, suffix=suffix, dir=\".\").name\n        with open(tmp, \"w\") as fout:\n            self._tmpfile = tmp", "R1"),
    T("C20", "unlink-in-finally", (C, "        self.conn.commit()\n\n        if not self._keep_tempfiles:\n            os.unlink(fout.name)\n\n\nclass _GTFDBCreator",
                                   "        try:\n            self.conn.commit()\n        finally:\n            if not self._keep_tempfiles:\n                os.unlink(fout.name)\n\n\nclass _GTFDBCreator")),
    T("C20", "remove-instead-of-unlink", (C, "        if not self._keep_tempfiles:\n            os.unlink(fout.name)\n\n        # TODO: recreate indexes?", "        if not self._keep_tempfiles:\n            os.remove(fout.name)\n\n        # TODO: recreate indexes?")),
]
