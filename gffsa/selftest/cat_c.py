"""Self-test catalogue, properties C15-C20."""
VARIANTS = []
