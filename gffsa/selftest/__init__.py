"""E11 -- self-test of the checkers, both ways.

mutant: one instance of a rule broken in a scratch copy of the package; the
        property's check must report a NEW violation (exit 1), naming the rule
        when the catalogue says which;
twin:   a behaviour-preserving rewrite; the check must report nothing new and
        must not fail closed.

Edits are textual replacements anchored on the current source; an edit whose
anchor is not found (the repository has moved on) is skipped and counted.
Scratch copies live under a mkdtemp() directory and are removed right away.
"""
import multiprocessing
import os
import shutil
import tempfile
import time

from .. import AnalysisError


class Variant:
    def __init__(self, pid, name, kind, edits, rule=None, note=""):
        self.pid, self.name, self.kind, self.edits, self.rule, self.note = pid, name, kind, edits, rule, note


def catalogue():
    from . import cat_a, cat_b, cat_c
    out = []
    for m in (cat_a, cat_b, cat_c):
        out.extend(m.VARIANTS)
    return out


def _failing(pid, root):
    from ..report import Ctx
    from ..props import load
    ctx = Ctx(pid, tier="quick", root=root)
    load(pid).check(ctx)
    return {o.key(): o for o in ctx.obs if not o.ok}


def _copy_pkg(root, dst):
    src = os.path.join(root, "gffutils")
    shutil.copytree(src, os.path.join(dst, "gffutils"),
                    ignore=shutil.ignore_patterns("test", "__pycache__", "*.pyc", "*.db", "*.fai"))


def _run_variant(args):
    v, root, base_keys = args
    tmp = tempfile.mkdtemp(prefix="gffsa-selftest-")
    try:
        _copy_pkg(root, tmp)
        for ed in v.edits:
            rel, old, new = ed[0], ed[1], ed[2]
            every = len(ed) > 3 and ed[3] == "all"
            p = os.path.join(tmp, rel)
            with open(p, encoding="utf-8") as fh:
                s = fh.read()
            if (s.count(old) != 1 and not every) or (every and s.count(old) < 1):
                return (v.pid, v.name, v.kind, "skipped", "anchor found %d times in %s" % (s.count(old), rel))
            with open(p, "w", encoding="utf-8") as fh:
                fh.write(s.replace(old, new))
        try:
            import ast
            for ed in v.edits:
                rel = ed[0]
                with open(os.path.join(tmp, rel), encoding="utf-8") as fh:
                    ast.parse(fh.read())
        except SyntaxError as e:
            return (v.pid, v.name, v.kind, "failed", "variant does not compile: %s" % e)
        try:
            fails = _failing(v.pid, tmp)
        except AnalysisError as e:
            return (v.pid, v.name, v.kind, "failed", "ANALYSIS-ERROR on the variant: %s" % e)
        except Exception as e:  # noqa
            return (v.pid, v.name, v.kind, "failed", "internal error on the variant: %s: %s" % (type(e).__name__, e))
        new = [o for k, o in fails.items() if k not in base_keys]
        if v.kind == "mutant":
            if not new:
                return (v.pid, v.name, v.kind, "failed", "mutant not detected")
            if v.rule and not any(o.rule.endswith(v.rule) for o in new):
                return (v.pid, v.name, v.kind, "failed", "mutant detected by %s, expected %s" % (sorted({o.rule for o in new}), v.rule))
            return (v.pid, v.name, v.kind, "ok", "%s :: %s" % (new[0].rule, new[0].sig[:100]))
        if new:
            return (v.pid, v.name, v.kind, "failed", "twin raised %s :: %s" % (new[0].rule, new[0].sig[:100]))
        return (v.pid, v.name, v.kind, "ok", "silent")
    finally:
        shutil.rmtree(tmp, ignore_errors=True)


FIXTURES = ["C19/reader-writes", "C01/direct-construction", "C17/raw-mapping-write", "C20/fixed-temp-name"]


def run_selftest(pids=None, root="/repo", jobs=16, seed=0, verbose=False, fixtures_only=False):
    t0 = time.time()
    vs = catalogue()
    if fixtures_only:
        vs = [v for v in vs if "%s/%s" % (v.pid, v.name) in FIXTURES]
    elif pids:
        vs = [v for v in vs if v.pid in pids]
    vs.sort(key=lambda v: (v.pid, v.name))
    base = {}
    for pid in sorted({v.pid for v in vs}):
        try:
            base[pid] = set(_failing(pid, root))
        except AnalysisError:
            base[pid] = None
    work = [(v, root, base[v.pid]) for v in vs if base.get(v.pid) is not None]
    res = []
    if work:
        if jobs > 1 and len(work) > 1:
            with multiprocessing.Pool(min(jobs, len(work))) as pool:
                res = pool.map(_run_variant, work, chunksize=1)
        else:
            res = [_run_variant(w) for w in work]
    out = {"total": len(res), "ok": 0, "failed": 0, "skipped": 0, "failures": [], "names": [], "wall_s": 0.0}
    for pid, name, kind, status, msg in res:
        out["names"].append("%s/%s[%s]=%s" % (pid, name, kind, status))
        if status == "ok":
            out["ok"] += 1
        elif status == "skipped":
            out["skipped"] += 1
        else:
            out["failed"] += 1
            out["failures"].append("%s/%s [%s]: %s" % (pid, name, kind, msg))
        if verbose:
            print("%-8s %s/%s [%s] %s" % (status, pid, name, kind, msg))
    out["wall_s"] = round(time.time() - t0, 2)
    return out
