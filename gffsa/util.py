"""AST helpers shared by the property rules."""
import ast

from . import AnalysisError
from .fold import Unfoldable
from .model import walk_own, norm, parents, stmt_of

HOLE_L, HOLE_R = "⟦", "⟧"


def own_nodes(fnode, types=None):
    for n in walk_own(fnode):
        if types is None or isinstance(n, types):
            yield n


def all_nodes(fnode, types=None):
    for n in ast.walk(fnode):
        if types is None or isinstance(n, types):
            yield n


def calls_in(fnode, own=True):
    it = own_nodes(fnode, ast.Call) if own else all_nodes(fnode, ast.Call)
    return sorted(it, key=lambda c: (c.lineno, c.col_offset))


def call_attr(call):
    """Method/function simple name of a call."""
    f = call.func
    if isinstance(f, ast.Attribute):
        return f.attr
    if isinstance(f, ast.Name):
        return f.id
    return None


def kwarg(call, name):
    for k in call.keywords:
        if k.arg == name:
            return k.value
    return None


def arg(call, pos, name=None):
    if pos is not None and len(call.args) > pos and not any(isinstance(a, ast.Starred) for a in call.args[:pos + 1]):
        return call.args[pos]
    if name:
        return kwarg(call, name)
    return None


def is_name(node, name):
    return isinstance(node, ast.Name) and node.id == name




def const_str(node):
    if isinstance(node, ast.Constant) and isinstance(node.value, str):
        return node.value
    return None




def assignments_to(fnode, name, own=True):
    """All statements of the function that bind local `name` (Assign,
    AugAssign, For target, With-as, tuple unpack) in source order."""
    out = []
    it = own_nodes(fnode) if own else all_nodes(fnode)
    for n in it:
        if isinstance(n, ast.Assign):
            for t in n.targets:
                if any(isinstance(x, ast.Name) and x.id == name and isinstance(x.ctx, ast.Store) for x in ast.walk(t)):
                    out.append(n)
                    break
        elif isinstance(n, ast.AugAssign) and is_name(n.target, name):
            out.append(n)
        elif isinstance(n, ast.AnnAssign) and is_name(n.target, name):
            out.append(n)
        elif isinstance(n, (ast.For, ast.comprehension)):
            if any(isinstance(x, ast.Name) and x.id == name for x in ast.walk(n.target)):
                out.append(n)
        elif isinstance(n, ast.With):
            for it_ in n.items:
                if it_.optional_vars is not None and any(isinstance(x, ast.Name) and x.id == name for x in ast.walk(it_.optional_vars)):
                    out.append(n)
    out.sort(key=lambda n: (getattr(n, "lineno", 0), getattr(n, "col_offset", 0)))
    return out


def single_assignment(fnode, name):
    """The value expr if `name` is bound exactly once by a plain `name = expr`."""
    asg = assignments_to(fnode, name)
    if len(asg) == 1 and isinstance(asg[0], ast.Assign) and len(asg[0].targets) == 1 and is_name(asg[0].targets[0], name):
        return asg[0].value
    return None


# ------------------------------------------------------------- SQL text
class SqlText:
    """SQL text with holes; `exact` is False when any part was unknown."""

    def __init__(self, text, holes=(), exact=True):
        self.text = text
        self.holes = list(holes)
        self.exact = exact

    def __add__(self, other):
        return SqlText(self.text + other.text, self.holes + other.holes, self.exact and other.exact)


def _hole(name):
    return SqlText(HOLE_L + name + HOLE_R, [name], True)


def sqltext(expr, func, ctx, depth=0):
    """Resolve the expression passed as SQL to an execute call into text with
    holes.  Unknown sub-expressions become holes named after their source."""
    proj, folder = ctx.proj, ctx.folder
    mod = func.module.name
    v = folder.try_fold(expr, mod, default=None)
    if isinstance(v, str) and not _mentions_local(expr, func):
        return SqlText(v)
    if depth > 6:
        return _hole(norm(expr))
    if isinstance(expr, ast.Constant) and isinstance(expr.value, str):
        return SqlText(expr.value)
    if isinstance(expr, ast.Name):
        if expr.id in func.locals:
            val = single_assignment(func.node, expr.id)
            if val is not None:
                return sqltext(val, func, ctx, depth + 1)
            # the loop variable of `for stmt in <constant sequence of statements>`: all of them, as one script
            loops = [n for n in ast.walk(func.node) if isinstance(n, ast.For) and isinstance(n.target, ast.Name) and n.target.id == expr.id]
            if len(loops) == 1:
                seq = folder.try_fold(loops[0].iter, mod, default=None)
                if isinstance(seq, (tuple, list)) and seq and all(isinstance(x, str) for x in seq):
                    return SqlText(";\n".join(x.strip().rstrip(";") for x in seq))
            if func.parent is None or expr.id in func.params:
                return _hole(expr.id)
        f = func.parent
        while f is not None:
            if expr.id in f.locals:
                val = single_assignment(f.node, expr.id)
                if val is not None:
                    return sqltext(val, f, ctx, depth + 1)
                return _hole(expr.id)
            f = f.parent
        return _hole(expr.id)
    if isinstance(expr, ast.Attribute) and isinstance(expr.value, ast.Name) and expr.value.id in ("self", "cls"):
        # a class-level constant (self._SQL): the class body assignment, searched along the MRO; not if assigned elsewhere
        c = func.cls
        f_ = func
        while c is None and f_ is not None:
            f_ = f_.parent
            c = f_.cls if f_ is not None else None
        if c is not None:
            for k in proj.mro(c):
                vals = [n.value for n in k.node.body if isinstance(n, ast.Assign) and any(is_name(t, expr.attr) for t in n.targets)]
                if vals:
                    rebound = any(isinstance(n, (ast.Assign, ast.AugAssign)) and any(
                        isinstance(t, ast.Attribute) and t.attr == expr.attr for t in (n.targets if isinstance(n, ast.Assign) else [n.target]))
                        for m_ in proj.modules.values() for n in ast.walk(m_.tree))
                    if len(vals) == 1 and not rebound:
                        v2 = folder.try_fold(vals[0], k.module.name, default=None)
                        if isinstance(v2, str):
                            return SqlText(v2)
                    break
        return _hole(norm(expr))
    if isinstance(expr, ast.BinOp) and isinstance(expr.op, ast.Add):
        return sqltext(expr.left, func, ctx, depth + 1) + sqltext(expr.right, func, ctx, depth + 1)
    if isinstance(expr, ast.BinOp) and isinstance(expr.op, ast.Mod):
        left = sqltext(expr.left, func, ctx, depth + 1)
        right = expr.right.elts if isinstance(expr.right, ast.Tuple) else [expr.right]
        parts = left.text.split("%s")
        if len(parts) - 1 == len(right):
            out = SqlText(parts[0], left.holes, left.exact)
            for r, p in zip(right, parts[1:]):
                rv = folder.try_fold(r, mod, default=None)
                if isinstance(rv, (str, int)) and not _mentions_local(r, func):
                    out = out + SqlText(str(rv))
                else:
                    out = out + _hole(norm(r))
                out = out + SqlText(p)
            return out
        return _hole(norm(expr))
    if isinstance(expr, ast.JoinedStr):
        out = SqlText("")
        for p in expr.values:
            if isinstance(p, ast.Constant):
                out = out + SqlText(str(p.value))
            else:
                out = out + sqltext(p.value, func, ctx, depth + 1)
        return out
    if isinstance(expr, ast.Call) and isinstance(expr.func, ast.Attribute):
        if expr.func.attr == "join" and len(expr.args) == 1 and isinstance(expr.args[0], (ast.List, ast.Tuple)):
            sep = const_str(expr.func.value)
            if sep is not None:
                out = SqlText("")
                for i, e in enumerate(expr.args[0].elts):
                    if i:
                        out = out + SqlText(sep)
                    out = out + sqltext(e, func, ctx, depth + 1)
                return out
        if expr.func.attr == "format":
            base = sqltext(expr.func.value, func, ctx, depth + 1)
            return SqlText(base.text, base.holes, False)
        if expr.func.attr in ("strip", "rstrip", "lstrip") and not expr.args:
            return sqltext(expr.func.value, func, ctx, depth + 1)
    if isinstance(expr, ast.Call) and is_name(expr.func, "dedent") and expr.args:
        return sqltext(expr.args[0], func, ctx, depth + 1)
    return _hole(norm(expr))


def _mentions_local(expr, func):
    loc = set()
    f = func
    while f is not None:
        loc |= f.locals
        f = f.parent
    return any(isinstance(n, ast.Name) and n.id in loc for n in ast.walk(expr))


class ExecSite:
    def __init__(self, call, func, method, sql, params):
        self.call, self.func, self.method = call, func, method
        self.sql, self.params = sql, params
        self.stmts = None
        self.error = None


def execute_sites(ctx, funcs=None):
    """Every `<recv>.execute/executemany/executescript(sql, ...)` call in the
    package, with the SQL resolved to text-with-holes and parsed."""
    from . import sql as S
    out = []
    pool = funcs if funcs is not None else list(ctx.proj.funcs.values())
    for f in pool:
        for c in calls_in(f.node):
            if not isinstance(c.func, ast.Attribute):
                continue
            if c.func.attr not in ("execute", "executemany", "executescript"):
                continue
            if not c.args:
                continue
            st = sqltext(c.args[0], f, ctx)
            site = ExecSite(c, f, c.func.attr, st, c.args[1] if len(c.args) > 1 else None)
            pure_hole = st.text.strip().startswith(HOLE_L) and st.text.strip().endswith(HOLE_R) and st.text.count(HOLE_L) == 1
            if pure_hole:
                site.error = "opaque"
            else:
                try:
                    site.stmts = S.parse_script(st.text)
                except S.SQLError as e:
                    site.error = str(e)
            out.append(site)
    return out


def require_func(ctx, qual):
    f = ctx.proj.func(qual)
    ctx.touch(f)
    return f




def guards_of(node, fnode):
    """Structural guards of a node: list of (test expr, polarity) for each
    enclosing If branch inside fnode, innermost first."""
    out = []
    child = node
    for p in parents(node):
        if p is fnode:
            break
        if isinstance(p, ast.If):
            if _contains(p.body, child):
                out.append((p.test, True))
            elif _contains(p.orelse, child):
                out.append((p.test, False))
        elif isinstance(p, ast.IfExp):
            if child is p.body:
                out.append((p.test, True))
            elif child is p.orelse:
                out.append((p.test, False))
        child = p
    return out


def _contains(stmts, node):
    return any(node is s for s in stmts)


# ------------------------------------------------------------- closures
def closure(ctx, func, depth=3, include_nested=True, private_only=True, cross_module=False):
    """`func` together with the package helpers it calls (transitively, to a
    small depth) and their nested functions: a block moved into a private
    helper is still found by the rules.  private_only: helpers whose name
    starts with '_' or that live in the same class."""
    out, seen = [], set()

    def add(f, d):
        if f.qual in seen:
            return
        seen.add(f.qual)
        out.append(f)
        ctx.touch(f)
        if include_nested:
            for lst in f.nested.values():
                for g in lst:
                    add(g, d)
        if d <= 0:
            return
        for c in calls_in(f.node, own=False):
            fs, _d = ctx.proj.resolve_call(c, f)
            for g in fs:
                if g.module is not f.module and not cross_module:
                    continue
                if private_only and g.module is f.module and not (g.name.startswith("_") or (g.cls is not None and g.cls is f.cls)):
                    continue
                if g.name.startswith("__") and g.name.endswith("__"):
                    continue
                add(g, d - 1)
    add(func, depth)
    return out




def resolve_name(node, func):
    """Follow `name = expr` (single assignment in func or its enclosing
    functions) to the defining expression; other nodes are returned as is."""
    seen = 0
    while isinstance(node, ast.Name) and seen < 6:
        v = None
        f = func
        while f is not None and v is None:
            if node.id in f.locals:
                v = single_assignment(f.node, node.id)
                break
            f = f.parent
        if v is None:
            break
        node = v
        seen += 1
    return node


