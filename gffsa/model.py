"""E0 -- source model of the gffutils package (what setup.py ships, minus tests).

Builds module ASTs with parent links, import-alias tables, class table with
MRO, function table by qualified name (nested functions included) and a small
name / callee resolver.  Everything is read from the working tree on every run.
"""
import ast
import os

from . import AnalysisError

BUILTIN_CONTAINER_METHODS = {
    "append", "extend", "update", "keys", "items", "values", "get", "pop",
    "setdefault", "copy", "join", "split", "strip", "rstrip", "lstrip",
    "format", "replace", "lower", "upper", "startswith", "endswith", "count",
    "index", "sort", "add", "difference", "intersection", "write", "close",
    "read", "readlines", "decode", "encode", "execute", "executemany",
    "executescript", "fetchone", "fetchall", "commit", "cursor", "insert",
    "remove", "clear", "splitlines", "flush", "match", "search", "union",
    "info", "debug", "warning", "warn", "error", "setLevel", "find",
}


class Module:
    def __init__(self, name, path, src, tree):
        self.name = name
        self.path = path
        self.src = src
        self.tree = tree
        self.imports = {}  # local name -> canonical dotted target
        self.toplevel = {}  # name -> ast node (FunctionDef/ClassDef/Assign)

    def __repr__(self):
        return "<Module %s>" % self.name


class Class:
    def __init__(self, qual, module, node):
        self.qual = qual
        self.name = node.name
        self.module = module
        self.node = node
        self.base_names = []
        self.methods = {}

    def __repr__(self):
        return "<Class %s>" % self.qual


class Func:
    def __init__(self, qual, module, node, cls=None, parent=None):
        self.qual = qual
        self.module = module
        self.node = node
        self.cls = cls
        self.parent = parent
        self.name = node.name
        self._locals = None
        self._cfg = None
        self.nested = {}

    def __repr__(self):
        return "<Func %s>" % self.qual

    @property
    def params(self):
        a = self.node.args
        names = [x.arg for x in a.posonlyargs + a.args]
        if a.vararg:
            names.append(a.vararg.arg)
        names += [x.arg for x in a.kwonlyargs]
        if a.kwarg:
            names.append(a.kwarg.arg)
        return names

    def param_defaults(self):
        """name -> default expr (or None when required)."""
        a = self.node.args
        pos = a.posonlyargs + a.args
        out = {p.arg: None for p in pos}
        for p, d in zip(pos[len(pos) - len(a.defaults):], a.defaults):
            out[p.arg] = d
        for p, d in zip(a.kwonlyargs, a.kw_defaults):
            out[p.arg] = d
        return out

    @property
    def locals(self):
        if self._locals is None:
            names = set(self.params)
            for n in walk_own(self.node):
                if isinstance(n, ast.Name) and isinstance(n.ctx, (ast.Store, ast.Del)):
                    names.add(n.id)
                elif isinstance(n, (ast.FunctionDef, ast.ClassDef)) and n is not self.node:
                    names.add(n.name)
                elif isinstance(n, ast.ExceptHandler) and n.name:
                    names.add(n.name)
                elif isinstance(n, (ast.Import, ast.ImportFrom)):
                    for al in n.names:
                        names.add((al.asname or al.name).split(".")[0])
            # names declared global are not local
            for n in walk_own(self.node):
                if isinstance(n, ast.Global):
                    names -= set(n.names)
            self._locals = names
        return self._locals

    def lineno(self):
        return self.node.lineno


def walk_own(fnode):
    """Walk the body of a function without descending into nested function or
    class definitions (their names are still reported)."""
    stack = list(ast.iter_child_nodes(fnode))
    while stack:
        n = stack.pop()
        yield n
        if isinstance(n, (ast.FunctionDef, ast.AsyncFunctionDef, ast.ClassDef, ast.Lambda)):
            continue
        stack.extend(ast.iter_child_nodes(n))




def set_parents(tree):
    for n in ast.walk(tree):
        for c in ast.iter_child_nodes(n):
            c._parent = n
    tree._parent = None


def parents(node):
    p = getattr(node, "_parent", None)
    while p is not None:
        yield p
        p = getattr(p, "_parent", None)


def enclosing(node, types):
    for p in parents(node):
        if isinstance(p, types):
            return p
    return None


def stmt_of(node):
    """The statement node that contains `node` (or node itself)."""
    n = node
    while n is not None and not isinstance(n, ast.stmt):
        n = getattr(n, "_parent", None)
    return n


def unparse(node):
    try:
        return ast.unparse(node)
    except Exception:  # pragma: no cover
        return "<%s>" % type(node).__name__


def norm(node):
    """Normalised one-line source of a node (keying findings)."""
    return " ".join(unparse(node).split())


class Project:
    PACKAGE = "gffutils"
    SKIP_DIRS = {"test", "__pycache__"}

    def __init__(self, root="/repo"):
        self.root = root
        self.modules = {}
        self.funcs = {}
        self.classes = {}
        self.units = []
        self._load()

    # ------------------------------------------------------------------ load
    def _load(self):
        pkg = os.path.join(self.root, self.PACKAGE)
        if not os.path.isdir(pkg):
            raise AnalysisError("package directory %s not found" % pkg)
        files = []
        for fn in sorted(os.listdir(pkg)):
            if fn.endswith(".py"):
                files.append((fn[:-3], os.path.join(pkg, fn)))
        sdir = os.path.join(pkg, "scripts")
        if os.path.isdir(sdir):
            for fn in sorted(os.listdir(sdir)):
                p = os.path.join(sdir, fn)
                if os.path.isfile(p):
                    files.append(("scripts." + fn.replace(".py", "").replace("-", "_"), p))
        for name, path in files:
            with open(path, encoding="utf-8") as fh:
                src = fh.read()
            try:
                tree = ast.parse(src, filename=path)
            except SyntaxError as e:
                raise AnalysisError("syntax error in %s: %s" % (path, e))
            set_parents(tree)
            m = Module(name, path, src, tree)
            self.modules[name] = m
            self.units.append(os.path.relpath(path, self.root))
        for m in self.modules.values():
            self._index_module(m)
        for c in self.classes.values():
            self._resolve_bases(c)

    def _index_module(self, m):
        for n in ast.walk(m.tree):
            if isinstance(n, ast.Import):
                for al in n.names:
                    local = al.asname or al.name.split(".")[0]
                    target = al.name if al.asname else al.name.split(".")[0]
                    m.imports.setdefault(local, self._canon_mod(target))
            elif isinstance(n, ast.ImportFrom):
                mod = n.module or ""
                for al in n.names:
                    local = al.asname or al.name
                    full = mod + "." + al.name if mod else al.name
                    m.imports.setdefault(local, self._canon_mod(full, getattr(n, "level", 0)))
        for n in m.tree.body:
            if isinstance(n, (ast.FunctionDef, ast.ClassDef)):
                m.toplevel[n.name] = n
            elif isinstance(n, ast.Assign):
                for t in n.targets:
                    if isinstance(t, ast.Name):
                        m.toplevel[t.id] = n
            elif isinstance(n, ast.AugAssign) and isinstance(n.target, ast.Name):
                m.toplevel.setdefault(n.target.id, n)
        self._index_defs(m, m.tree.body, prefix=m.name, cls=None, parent=None)

    def _canon_mod(self, dotted, level=0):
        p = self.PACKAGE + "."
        if dotted == self.PACKAGE:
            return self.PACKAGE
        if dotted.startswith(p):
            return dotted[len(p):]
        if level:
            return dotted          # relative import: a module of the package
        if dotted.split(".")[0] in self.modules:
            # an absolute import of a top-level module that merely shares its name with a package module (import inspect
            # inside gffutils is the standard library's): kept apart from the package's own module
            return "stdlib:" + dotted
        return dotted

    def _index_defs(self, m, body, prefix, cls, parent):
        for n in body:
            if isinstance(n, (ast.FunctionDef, ast.AsyncFunctionDef)):
                q = "%s.%s" % (prefix, n.name)
                if q in self.funcs:
                    # conditional re-definition (child_gen under if/elif): suffix
                    k = 2
                    while "%s#%d" % (q, k) in self.funcs:
                        k += 1
                    q = "%s#%d" % (q, k)
                f = Func(q, m, n, cls=cls, parent=parent)
                n._func = f
                self.funcs[q] = f
                if cls is not None and parent is None:
                    cls.methods.setdefault(n.name, f)
                if parent is not None:
                    parent.nested.setdefault(n.name, []).append(f)
                self._index_nested(m, n, q + ".<locals>", cls, f)
            elif isinstance(n, ast.ClassDef):
                q = "%s.%s" % (prefix, n.name)
                c = Class(q, m, n)
                n._class = c
                self.classes[q] = c
                for b in n.bases:
                    c.base_names.append(b)
                self._index_defs(m, n.body, q, c, None)
            elif isinstance(n, (ast.If, ast.Try, ast.With, ast.For, ast.While)):
                for fld in ("body", "orelse", "finalbody"):
                    self._index_defs(m, getattr(n, fld, []) or [], prefix, cls, parent)
                for h in getattr(n, "handlers", []) or []:
                    self._index_defs(m, h.body, prefix, cls, parent)

    def _index_nested(self, m, fnode, prefix, cls, parent):
        # nested defs anywhere in the function body (not inside deeper defs)
        def rec(body):
            for n in body:
                if isinstance(n, (ast.FunctionDef, ast.AsyncFunctionDef, ast.ClassDef)):
                    self._index_defs(m, [n], prefix, cls, parent)
                else:
                    for fld in ("body", "orelse", "finalbody"):
                        sub = getattr(n, fld, None)
                        if isinstance(sub, list):
                            rec(sub)
                    for h in getattr(n, "handlers", []) or []:
                        rec(h.body)
        rec(fnode.body)

    def _resolve_bases(self, c):
        c.bases = []
        for b in c.base_names:
            d = self.dotted(b, c.module)
            c.bases.append(self.classes.get(d) or d)

    # ------------------------------------------------------------ look-ups
    def module(self, name):
        if name not in self.modules:
            raise AnalysisError("anchor vanished: module gffutils/%s.py" % name)
        return self.modules[name]

    def func(self, qual):
        if qual not in self.funcs:
            raise AnalysisError("anchor vanished: function %s" % qual)
        return self.funcs[qual]

    def maybe_func(self, qual):
        return self.funcs.get(qual)

    def cls(self, qual):
        if qual not in self.classes:
            raise AnalysisError("anchor vanished: class %s" % qual)
        return self.classes[qual]

    def mro(self, c):
        out, seen = [], set()

        def rec(k):
            if isinstance(k, Class) and k.qual not in seen:
                seen.add(k.qual)
                out.append(k)
                for b in k.bases:
                    rec(b)
        rec(c)
        return out

    def subclasses(self, c, strict=False):
        out = []
        for k in self.classes.values():
            if k is c and strict:
                continue
            if c in self.mro(k):
                out.append(k)
        return out

    def method(self, c, name):
        for k in self.mro(c):
            if name in k.methods:
                return k.methods[name]
        return None

    def funcs_in_module(self, modname):
        return [f for f in self.funcs.values() if f.module.name == modname]

    def enclosing_func(self, node):
        for p in parents(node):
            f = getattr(p, "_func", None)
            if f is not None:
                return f
        return None

    def module_of(self, node):
        n = node
        while getattr(n, "_parent", None) is not None:
            n = n._parent
        for m in self.modules.values():
            if m.tree is n:
                return m
        return None

    # ---------------------------------------------------------- resolution
    def dotted(self, node, module, func=None):
        """Canonical dotted name of a Name/Attribute chain.

        '$x...' for function locals, 'mod.name' for package objects,
        'os.unlink' for externals, bare name for builtins.  None otherwise.
        """
        if isinstance(node, ast.Name):
            nm = node.id
            f = func
            while f is not None:
                li = self._local_imports(f)
                if nm in li:
                    return li[nm]
                if nm in f.locals:
                    return "$" + nm
                f = f.parent
            if nm in module.imports:
                return module.imports[nm]
            if nm in module.toplevel:
                return "%s.%s" % (module.name, nm)
            return nm
        if isinstance(node, ast.Attribute):
            base = self.dotted(node.value, module, func)
            if base is None:
                return None
            return base + "." + node.attr
        if isinstance(node, ast.Call):
            # super(X, self).__init__  ->  $super.__init__
            if isinstance(node.func, ast.Name) and node.func.id == "super":
                return "$super"
        return None

    def _local_imports(self, f):
        li = getattr(f, "_local_imports", None)
        if li is None:
            li = {}
            for n in walk_own(f.node):
                if isinstance(n, ast.Import):
                    for al in n.names:
                        local = al.asname or al.name.split(".")[0]
                        li[local] = self._canon_mod(al.name if al.asname else al.name.split(".")[0])
                elif isinstance(n, ast.ImportFrom):
                    for al in n.names:
                        full = (n.module + "." if n.module else "") + al.name
                        li[al.asname or al.name] = self._canon_mod(full, getattr(n, "level", 0))
            f._local_imports = li
        return li

    def resolve_call(self, call, func):
        """Return (funcs, dotted): the package functions a call may reach and
        the canonical dotted name of the callee expression."""
        module = func.module if func is not None else self.module_of(call)
        d = self.dotted(call.func, module, func)
        if d is None:
            if isinstance(call.func, ast.Attribute):
                return self._by_unique_method(call.func.attr), None
            return [], None
        if d in self.funcs:
            return [self.funcs[d]], d
        if d in self.classes:
            init = self.method(self.classes[d], "__init__")
            return ([init] if init else []), d
        if d.startswith("$"):
            parts = d[1:].split(".")
            if len(parts) == 1:
                f = func
                while f is not None:
                    if parts[0] in f.nested:
                        return list(f.nested[parts[0]]), d
                    f = f.parent
                # a local bound to package classes/functions (cls = _GFFDBCreator ... cls(**kw))
                out = []
                if func is not None:
                    for n in walk_own(func.node):
                        if isinstance(n, ast.Assign) and any(isinstance(t, ast.Name) and t.id == parts[0] for t in n.targets) \
                                and isinstance(n.value, (ast.Name, ast.Attribute)):
                            dv = self.dotted(n.value, module, func)
                            if dv in self.classes:
                                init = self.method(self.classes[dv], "__init__")
                                if init is not None and init not in out:
                                    out.append(init)
                            elif dv in self.funcs and self.funcs[dv] not in out:
                                out.append(self.funcs[dv])
                return out, d
            if parts[0] in ("self", "cls") and len(parts) == 2 and func is not None:
                c = func.cls
                f = func
                while c is None and f is not None:
                    f = f.parent
                    c = f.cls if f is not None else None
                if c is not None:
                    out = []
                    m = self.method(c, parts[1])
                    if m:
                        out.append(m)
                    for k in self.subclasses(c, strict=True):
                        if parts[1] in k.methods and k.methods[parts[1]] not in out:
                            out.append(k.methods[parts[1]])
                    return out, d
            if parts[0] == "super" and len(parts) == 2 and func is not None and func.cls is not None:
                for k in self.mro(func.cls)[1:]:
                    if parts[1] in k.methods:
                        return [k.methods[parts[1]]], d
                return [], d
            return self._by_unique_method(parts[-1]), d
        return [], d

    def _by_unique_method(self, name):
        if name in BUILTIN_CONTAINER_METHODS:
            return []
        owners = [c for c in self.classes.values() if name in c.methods]
        if not owners:
            return []
        # one class family only
        roots = set()
        for c in owners:
            roots.add(self.mro(c)[-1].qual)
        if len(roots) == 1:
            return [c.methods[name] for c in owners]
        return []

    # -------------------------------------------------------------- utils
    def where(self, node, func=None):
        m = self.module_of(node)
        path = os.path.relpath(m.path, self.root) if m else "?"
        f = func or self.enclosing_func(node) or getattr(node, "_func", None)
        return "%s:%s %s" % (path, getattr(node, "lineno", "?"), f.qual if f else "<module>")
