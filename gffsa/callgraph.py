"""E3 -- resolved call graph and effect summaries.

Direct effects per function:
  ("SQL", verb, table)   statement executed through execute/executemany/executescript
  ("SQL?", text)         SQL that could not be resolved (pass-through of a caller's string)
  ("COMMIT",)
  ("FS", kind, callee)   kind in create-temp | write-open | unlink | copy | move | mkdir
  ("GLOBAL", target)     store to a module-level attribute of another module / global name
Transitive effects are the union over the resolved call graph (class-hierarchy
analysis for self.m).  User callables are opaque and assumed effect-free.
"""
import ast

from .model import walk_own
from .util import calls_in, execute_sites, const_str, HOLE_L

FS_CALLS = {
    "os.unlink": "unlink", "os.remove": "unlink", "os.rmdir": "unlink",
    "shutil.rmtree": "unlink",
    "shutil.copy2": "copy", "shutil.copy": "copy", "shutil.copyfile": "copy",
    "shutil.move": "move", "os.rename": "move", "os.replace": "move",
    "tempfile.NamedTemporaryFile": "create-temp", "tempfile.mkstemp": "create-temp",
    "tempfile.mktemp": "create-temp", "tempfile.TemporaryFile": "create-temp",
    "tempfile.mkdtemp": "create-temp",
    "os.mkdir": "mkdir", "os.makedirs": "mkdir",
}


class Effects:
    def __init__(self, ctx):
        self.ctx = ctx
        self.proj = ctx.proj
        self.direct = {}
        self.callees = {}
        self.sites = {}
        self._trans = {}
        self._build()

    def _build(self):
        proj = self.proj
        all_sites = execute_sites(self.ctx)
        by_func = {}
        for s in all_sites:
            by_func.setdefault(s.func.qual, []).append(s)
        for q, f in proj.funcs.items():
            eff = []
            self.sites[q] = by_func.get(q, [])
            for s in self.sites[q]:
                if s.stmts:
                    for st in s.stmts:
                        tabs = st.tables() or [None]
                        for t in tabs:
                            eff.append(("SQL", st.verb, t, s.call))
                        if s.method == "executescript":
                            eff.append(("SCRIPT", s.call))
                else:
                    eff.append(("SQL?", " ".join(s.sql.text.split())[:80], s.call))
                    if s.method == "executescript":
                        eff.append(("SCRIPT", s.call))
            callees = []
            for c in calls_in(f.node):
                fs, d = proj.resolve_call(c, f)
                for g in fs:
                    callees.append((g, c))
                if d in FS_CALLS:
                    eff.append(("FS", FS_CALLS[d], d, c))
                elif d == "open" or d == "io.open" or d == "gzip.open":
                    mode = None
                    if len(c.args) > 1:
                        mode = const_str(c.args[1])
                    for k in c.keywords:
                        if k.arg == "mode":
                            mode = const_str(k.value)
                    if mode is None and len(c.args) > 1:
                        mode = "?"
                    if mode and any(ch in mode for ch in "wax+?"):
                        eff.append(("FS", "write-open", d, c))
                elif isinstance(c.func, ast.Attribute) and c.func.attr == "commit":
                    eff.append(("COMMIT", c))
            # stores to other modules' attributes / globals
            gl = set()
            for n in walk_own(f.node):
                if isinstance(n, ast.Global):
                    gl |= set(n.names)
            for n in walk_own(f.node):
                targets = []
                if isinstance(n, ast.Assign):
                    targets = n.targets
                elif isinstance(n, (ast.AugAssign, ast.AnnAssign)):
                    targets = [n.target]
                for t in targets:
                    if isinstance(t, ast.Attribute):
                        d = proj.dotted(t, f.module, f)
                        if d and not d.startswith("$"):
                            eff.append(("GLOBAL", d, n))
                    elif isinstance(t, ast.Name) and t.id in gl:
                        eff.append(("GLOBAL", "%s.%s" % (f.module.name, t.id), n))
            self.direct[q] = eff
            self.callees[q] = callees

    def reach(self, qual):
        """Set of function quals reachable from qual (inclusive)."""
        seen = {qual}
        stack = [qual]
        while stack:
            q = stack.pop()
            for g, _c in self.callees.get(q, []):
                if g.qual not in seen:
                    seen.add(g.qual)
                    stack.append(g.qual)
            # nested functions defined inside are part of the function's behaviour
            f = self.proj.funcs.get(q)
            if f is not None:
                for lst in f.nested.values():
                    for g in lst:
                        if g.qual not in seen:
                            seen.add(g.qual)
                            stack.append(g.qual)
        return seen

    def transitive(self, qual):
        if qual not in self._trans:
            out = []
            for q in sorted(self.reach(qual)):
                for e in self.direct.get(q, []):
                    out.append((q,) + tuple(e))
            self._trans[qual] = out
        return self._trans[qual]

    def path(self, src, dst):
        """One call path src ->* dst as list of quals."""
        prev = {src: None}
        queue = [src]
        while queue:
            q = queue.pop(0)
            if q == dst:
                out = []
                while q is not None:
                    out.append(q)
                    q = prev[q]
                return out[::-1]
            nxt = [g.qual for g, _ in self.callees.get(q, [])]
            f = self.proj.funcs.get(q)
            if f is not None:
                for lst in f.nested.values():
                    nxt += [g.qual for g in lst]
            for n in nxt:
                if n not in prev:
                    prev[n] = q
                    queue.append(n)
        return None
