#!/bin/sh
# Runs the pinned gffutils suite (BASELINE.json cmd) and prints the pass/fail summary.
cd /repo && /venv/bin/python -m pytest -ra -q -p no:cacheprovider --timeout=900 --continue-on-collection-errors --junitxml=/tmp/gffutils_suite.xml "$@" 2>&1 | tail -8
/venv/bin/python - <<'PY'
import json, xml.etree.ElementTree as ET
base = set(json.load(open('/root/.vp/BASELINE.json'))['stable_pass'])
t = ET.parse('/tmp/gffutils_suite.xml')
ok = set()
for tc in t.iter('testcase'):
    if not any(c.tag in ('failure','error','skipped') for c in tc):
        ok.add(tc.get('classname') + '::' + tc.get('name'))
print('BASELINE pass=%d/%d missing=%s' % (len(base & ok), len(base), sorted(base - ok)))
PY
rm -f /tmp/gffutils_suite.xml
