#!/usr/bin/env python3
"""For every self-test MUTANT: apply it to a scratch copy of the whole
repository (tests included), run the pinned suite and record whether the 74
baseline tests still pass ("compiles and passes the existing tests").
Writes /verif/selftest/suite_results.json.  Not part of any registered check."""
import json
import multiprocessing
import os
import shutil
import subprocess
import sys
import tempfile
import xml.etree.ElementTree as ET

sys.path.insert(0, "/verif")
from gffsa.selftest import catalogue  # noqa

BASE = set(json.load(open("/root/.vp/BASELINE.json"))["stable_pass"])


def run(v):
    tmp = tempfile.mkdtemp(prefix="gffsa-suite-")
    try:
        dst = os.path.join(tmp, "repo")
        shutil.copytree("/repo", dst, ignore=shutil.ignore_patterns(".git", "__pycache__", "*.pyc", "*.db", "doc"))
        for ed in v.edits:
            p = os.path.join(dst, ed[0])
            s = open(p, encoding="utf-8").read()
            if ed[1] not in s:
                return v.pid, v.name, "skipped", []
            open(p, "w", encoding="utf-8").write(s.replace(ed[1], ed[2]))
        xml = os.path.join(tmp, "r.xml")
        subprocess.run(["/venv/bin/python", "-m", "pytest", "-q", "-p", "no:cacheprovider", "--timeout=900",
                        "--continue-on-collection-errors", "--junitxml=" + xml], cwd=dst, stdout=subprocess.DEVNULL,
                       stderr=subprocess.DEVNULL, timeout=1200)
        ok = set()
        if os.path.exists(xml):
            for tc in ET.parse(xml).iter("testcase"):
                if not any(c.tag in ("failure", "error", "skipped") for c in tc):
                    ok.add(tc.get("classname") + "::" + tc.get("name"))
        missing = sorted(BASE - ok)
        return v.pid, v.name, "passes-suite" if not missing else "caught-by-suite", missing[:4]
    finally:
        shutil.rmtree(tmp, ignore_errors=True)


if __name__ == "__main__":
    vs = [v for v in catalogue() if v.kind == "mutant"]
    with multiprocessing.Pool(12) as pool:
        res = pool.map(run, vs, chunksize=1)
    out = {"%s/%s" % (p, n): {"status": s, "failing": m} for p, n, s, m in res}
    os.makedirs("/verif/selftest", exist_ok=True)
    json.dump(out, open("/verif/selftest/suite_results.json", "w"), indent=1, sort_keys=True)
    from collections import Counter
    print(Counter(v["status"] for v in out.values()))
    for k, v in sorted(out.items()):
        if v["status"] != "passes-suite":
            print(k, v)
