"""Tool validation (not a check): the relational evaluator gffsa.minidb against the sqlite3 module on the statements
gffutils uses, over randomly filled small tables.  Run by hand after changing minidb.py."""
import random
import sqlite3
import sys

sys.path.insert(0, "/verif")
from gffsa import minidb  # noqa: E402

SCHEMA = open("/repo/gffutils/constants.py").read().split('SCHEMA = """')[1].split('"""')[0]

QUERIES = [
    ("SELECT id FROM features", ()),
    ("SELECT child FROM relations WHERE level = 1 AND parent IN (SELECT child FROM relations WHERE parent = ? AND level = 1)", ("g1",)),
    ("SELECT DISTINCT firstlevel.parent, relations.parent FROM ( SELECT DISTINCT parent FROM relations JOIN features ON features.id = relations.child "
     "WHERE features.featuretype = ? AND relations.level = 1 ) AS firstlevel JOIN relations ON firstlevel.parent = child WHERE relations.level = 1 ORDER BY relations.parent", ("exon",)),
    ("SELECT MIN(start), MAX(end), strand, seqid FROM features JOIN relations ON features.id = relations.child WHERE parent = ? AND featuretype == ?", ("t1", "exon")),
    ("SELECT MIN(start), MAX(end) FROM features JOIN relations ON features.id = relations.child WHERE parent = ? AND featuretype == ?", ("nothing", "exon")),
    ("SELECT count() FROM features WHERE featuretype = ?", ("exon",)),
    ("SELECT count() FROM features", ()),
    ("SELECT DISTINCT featuretype from features", ()),
    ("SELECT id, start, features.rowid as file_order FROM features WHERE id = ?", ("e1",)),
    ("SELECT id FROM features WHERE start >= ? AND end <= ? ORDER BY start DESC, id", ("5", 400)),
    ("SELECT DISTINCT id FROM relations JOIN features ON features.id = relations.child WHERE relations.parent = ? AND relations.level = ? ORDER BY start", ("g1", 2)),
    ("SELECT id FROM features WHERE (start BETWEEN ? AND ?) OR (end BETWEEN ? AND ?) ORDER BY id", (10, 100, 10, 100)),
    ("SELECT id FROM features WHERE featuretype IN (?, ?) AND strand = ? ORDER BY seqid, start", ("exon", "gene", "+")),
    ('SELECT "featuretype", COUNT(*) FROM features GROUP BY "featuretype"', ()),
    ("SELECT seqid, strand, COUNT(*), MIN(start) FROM features GROUP BY seqid, strand LIMIT 3", ()),
    ("SELECT featuretype, COUNT(*) FROM features GROUP BY featuretype LIMIT ?", (2,)),
    ("SELECT id FROM features ORDER BY id LIMIT 4 OFFSET 2", ()),
]


def fill(rnd):
    feats, rels = [], []
    ids = ["g1", "g2", "t1", "t2", "t3", "e1", "e2", "e3", "e4", "x"]
    for i in ids:
        ft = {"g": "gene", "t": "mRNA", "e": "exon", "x": "other"}[i[0]]
        s = rnd.randint(1, 300)
        feats.append((i, rnd.choice(["chr1", "chr2"]), "src", ft, s, s + rnd.randint(0, 200), ".", rnd.choice("+-"), ".", "{}", "[]", rnd.randint(1, 5000)))
    for _ in range(14):
        p, c = rnd.choice(ids), rnd.choice(ids)
        rels.append((p, c, rnd.choice([1, 1, 2])))
    return feats, sorted(set(rels))


def main(n=300):
    rnd = random.Random(7)
    bad = 0
    for it in range(n):
        feats, rels = fill(rnd)
        con = sqlite3.connect(":memory:")
        con.executescript(SCHEMA)
        m = minidb.MiniDB()
        m.script(SCHEMA)
        for f in feats:
            con.execute("INSERT INTO features VALUES (?,?,?,?,?,?,?,?,?,?,?,?)", f)
            m.execute("INSERT INTO features VALUES (?,?,?,?,?,?,?,?,?,?,?,?)", f)
        for r in rels:
            con.execute("INSERT OR IGNORE INTO relations VALUES (?,?,?)", r)
            m.execute("INSERT OR IGNORE INTO relations VALUES (?,?,?)", r)
        # conflicts
        for sql, p in (("INSERT INTO features (id) VALUES (?)", ("g1",)), ("UPDATE features SET id = ? WHERE id = ?", ("g1", "g2"))):
            try:
                con.execute(sql, p)
                a = "ok"
            except sqlite3.IntegrityError:
                a = "integrity"
            try:
                m.execute(sql, p)
                b = "ok"
            except minidb.IntegrityError:
                b = "integrity"
            if a != b:
                bad += 1
                print("CONFLICT DIFF", sql, a, b)
        for sql, p in (("UPDATE features SET attributes = ? WHERE id = ?", ("{\"a\": 1}", "e1")), ("DELETE FROM relations WHERE parent = ? OR child = ?", ("t1", "t1")),
                       ("INSERT OR REPLACE INTO autoincrements VALUES (?, ?)", ("gene", 3)), ("INSERT OR REPLACE INTO autoincrements VALUES (?, ?)", ("gene", 4))) if it % 2 else ():
            con.execute(sql, p)
            m.execute(sql, p)
        for sql, p in QUERIES + [("SELECT base, n FROM autoincrements", ()), ("SELECT parent, child, level FROM relations ORDER BY parent, child, level", ())]:
            want = [tuple(r) for r in con.execute(sql, p)]
            _c, got = m.execute(sql, p)
            got = [tuple(r) for r in got]
            ordered = "ORDER BY" in sql
            agg_bare = "MIN(start), MAX(end), strand" in sql       # bare columns next to two aggregates: any contributing row
            if agg_bare:
                want, got = [w[:2] for w in want], [g[:2] for g in got]
            if (want != got) if ordered else (sorted(map(repr, want)) != sorted(map(repr, got))):
                bad += 1
                print("DIFF", sql, p, "\n  sqlite:", want[:6], "\n  minidb:", got[:6])
                if bad > 5:
                    return 1
    print("statements x databases compared: %d, differences: %d" % (n * (len(QUERIES) + 2), bad))
    return 1 if bad else 0


if __name__ == "__main__":
    sys.exit(main())
