#!/usr/bin/env python3
"""Regression of the checks against the recorded independent changes.

  seeds  (/verif/seeded/*):        the property's own check must report a violation
  twins  (/verif/seeded_twins/*):  every check must stay silent (exit 0)

Each patch is applied to a scratch copy of the package (never to /repo); checks run
in-process with --root pointing at the copy.  usage: regress.py [seeds|twins|all] [Cnn ...] [-v]
"""
import glob
import json
import multiprocessing
import os
import shutil
import subprocess
import sys
import tempfile

sys.path.insert(0, "/verif")
ALL = ["C%02d" % i for i in range(1, 21)]


def status_of(pid, root):
    from gffsa import AnalysisError
    from gffsa.report import Ctx, load_known, match_known
    from gffsa.props import load
    try:
        ctx = Ctx(pid, root=root)
        load(pid).check(ctx)
    except AnalysisError as e:
        return 2, ["ANALYSIS-ERROR %s" % e]
    except Exception as e:
        return 2, ["INTERNAL %s: %s" % (type(e).__name__, e)]
    known = load_known()
    new = []
    seen = set()
    for o in ctx.obs:
        if not o.ok and o.key() not in seen and not match_known(o, pid, known):
            seen.add(o.key())
            new.append("%s %s :: %s" % (o.rule, (o.func or "").split(".")[-1], o.sig[:150]))
    return (1 if new else 0), new


def job(args):
    kind, name, patch, pids = args
    tmp = tempfile.mkdtemp(prefix="gffsa-regress-")
    try:
        shutil.copytree("/repo/gffutils", os.path.join(tmp, "gffutils"), ignore=shutil.ignore_patterns("test", "__pycache__", "*.pyc"))
        p = subprocess.run(["git", "apply", "--exclude=gffutils/test/*", patch], cwd=tmp, capture_output=True, text=True)
        if p.returncode != 0:
            return kind, name, {"_apply": (3, [p.stderr.strip()[:200]])}
        return kind, name, {pid: status_of(pid, tmp) for pid in pids}
    finally:
        shutil.rmtree(tmp, ignore_errors=True)


def main():
    args = [a for a in sys.argv[1:] if not a.startswith("-")]
    verbose = "-v" in sys.argv
    what = args[0] if args and args[0] in ("seeds", "twins", "all") else "all"
    only = [a for a in args if a.startswith("C")]
    jobs = []
    if what in ("seeds", "all"):
        for d in sorted(glob.glob("/verif/seeded/*/")):
            name = os.path.basename(d.rstrip("/"))
            pid = name.split("-")[0]
            if only and pid not in only:
                continue
            jobs.append(("seed", name, os.path.join(d, "patch.diff"), [pid]))
    if what in ("twins", "all"):
        for d in sorted(glob.glob("/verif/seeded_twins/*/")):
            name = os.path.basename(d.rstrip("/"))
            jobs.append(("twin", name, os.path.join(d, "patch.diff"), only or ALL))
    with multiprocessing.Pool(16) as pool:
        res = pool.map(job, jobs, chunksize=1)
    bad = 0
    n_seed = n_twin = ok_seed = ok_twin = 0
    for kind, name, r in res:
        if kind == "seed":
            n_seed += 1
            pid = name.split("-")[0]
            code, lines = r.get(pid, r.get("_apply"))
            if code == 1:
                ok_seed += 1
                if verbose:
                    print("seed %-7s detected: %s" % (name, lines[0][:140]))
            else:
                bad += 1
                print("seed %-7s NOT DETECTED (exit %d) %s" % (name, code, lines[:1]))
        else:
            n_twin += 1
            problems = {p: v for p, v in r.items() if v[0] != 0}
            if not problems:
                ok_twin += 1
            else:
                bad += 1
                for p, (code, lines) in sorted(problems.items()):
                    print("twin %-7s %s %s: %s" % (name, p, {1: "FALSE ALARM", 2: "fail-closed", 3: "apply"}[code], (lines[0] if lines else "")[:170]))
    print("seeds detected %d/%d ; twins silent %d/%d" % (ok_seed, n_seed, ok_twin, n_twin))
    return 1 if bad else 0


if __name__ == "__main__":
    sys.exit(main())
