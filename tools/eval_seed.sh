#!/bin/sh
# usage: tools/eval_seed.sh <patch.diff> [PID ...]
# Applies the patch to /repo, runs the given checks (default: all twenty) without touching evidence, reverts the patch.
patch="$1"; shift
cd /repo || exit 3
if ! git diff --quiet; then echo "repo not clean"; exit 3; fi
git apply "$patch" || { echo "patch does not apply"; exit 3; }
pids="$*"; [ -z "$pids" ] && pids="C01 C02 C03 C04 C05 C06 C07 C08 C09 C10 C11 C12 C13 C14 C15 C16 C17 C18 C19 C20"
cd /verif
for p in $pids; do
  out=$(/venv/bin/python -m gffsa check $p --no-write 2>&1); code=$?
  if [ $code -ne 0 ]; then echo "== $p exit=$code"; echo "$out" | grep -E "^(VIOLATION|ANALYSIS|  gff|  detail)" | head -8; fi
done
git -C /repo checkout -- .
echo "reverted: $(git -C /repo status --short | grep -v '^??' | wc -l) modified files left"
