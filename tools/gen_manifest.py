#!/usr/bin/env python3
"""Regenerates /verif/MANIFEST.json from the table below."""
import json
import os

HERE = os.path.dirname(os.path.dirname(os.path.abspath(__file__)))

P = {
 "C01": ("storage-table agreement of CREATE TABLE/_INSERT/_SELECT/_UPDATE; both importers' create() evaluated against a model database: every line becomes exactly one row, in file order, holding its nine fields, attributes/extra as JSON and the bin of its coordinates; db[id] returns a Feature with the line's fields; replace and FeatureDB._update store the new content under the id; the file's dialect survives create -> reopen and reaches every Feature handed out; JSON layer evaluated (key order, raw lists of an Attributes mapping under both always_return_list settings, re-wrap on decode, no aliasing between two decodings); printer/parser template round trip; column handling of feature_from_line (strict and blank-separated) and __unicode__",
         "byte-identity of printed lines for arbitrary values, iteration order without ORDER BY (SQLite scan order), re-import equivalence beyond the scenarios",
         "abstract evaluation of the importer / query code against a model database (own relational evaluator for the SQL subset used, in-memory file system, temp-file service; gffutils and sqlite3 never imported or run) on scenario files compared with the statement's reference model + static string analysis (template round trip) + parsed SQL table agreement", "3 C01; 9.8"),
 "C02": ("the GFF3 importer evaluated against a model database on a 10-line annotation graph (depth 4, shared child, a child naming both its transcript and the gene, repeated and dangling Parent values, a line without ID) in several line orders (all 720 orders of six lines in the thorough tier) and for a second import into the filled database: the relations table equals the Parent graph two levels deep, once each, no phantom feature; create() and FeatureDB.update() evaluated end to end (closure after population, children-first files); children/parents = exact join with DISTINCT and correct binding in every partition of the query builder",
         "'never its own relative' for cyclic input and 'for every graph' (scenario family only)",
         "abstract evaluation of the importer / query code against a model database (own relational evaluator for the SQL subset used, in-memory file system, temp-file service; gffutils and sqlite3 never imported or run) compared with a reference model of the Parent graph + conjunctive-query normal-form comparison of the generated children()/parents() statements", "3 C02; 9.8"),
 "C03": ("the GTF importer's create() evaluated against a model database (pair query with sub-select, MIN/MAX extent queries, intermediate file written and read back, derived features merged): two genes on two chromosomes with interleaved lines, an exon ending beyond the last-starting one, a transcript without exons, all four disable_infer_* combinations, shuffled orders, explicit gene/transcript lines (kept with their own coordinates and attributes), custom keys and subfeature, an id shared by a gene and an exon-less transcript: relations, derived features (type, seqid, extent, strand, bin, id attribute) and self-relations compared with a reference model; format routing as a decision table by abstract evaluation of create_db/update over force x fmt x id_spec",
         "'for every GTF file' (scenario family only)",
         "abstract evaluation of the importer / query code against a model database (own relational evaluator for the SQL subset used, in-memory file system, temp-file service; gffutils and sqlite3 never imported or run) compared with a reference model of the statement + abstract evaluation of the routing functions", "3 C03; 9.8"),
 "C04": ("id derivation as a decision table: _id_handler evaluated abstractly for 22 id_spec/feature scenarios (string, ':field:', list with fall-through, dict by featuretype, callable truthy/None/empty/'autoincrement:<base>', multi-valued attribute rejected in every form, per-base counters); counter routine evaluated for start states; merge()'s id generator by provenance (<base>_<counters[base]> after an increment); PRIMARY KEY(id) + plain INSERT; db[key] evaluated on a created model database for string and Feature keys: stored keys (incl. 'e2', 'e2x', 'E2') return exactly their feature, absent ones raise FeatureNotFoundError; default id_spec per format",
         "numbering 'in input order' separately (follows from C01.R2 + R4); id_spec forms outside the scenario table",
         "abstract evaluation (partitioned dataflow interpreter over the source, never executed) on a scenario table + value provenance + parsed SQL", "3 C04; 9.7"),
 "C05": ("dispatcher decision table by abstract evaluation of _do_merge over 30 scenarios; each importer's line loop evaluated against a model database (real key collisions raise IntegrityError) under every strategy: error aborts, warning keeps the first and writes none of the newcomer's links, replace keeps the last, create_unique keeps three arrivals under K, K_1, K_2, merge unions attribute values and links under the key, forced columns become the comma-joined set (also for an attribute-identical newcomer), a differing column files the newcomer under K_1 with its duplicates row, a third arrival agreeing with K_1 is merged into K_1; candidate query as conjunctive query; constructor rejects start/end; (known finding) relations of a replaced row",
         "the outcome for every interleaving of collisions beyond the scenarios (history-dependent data)",
         "abstract evaluation (partitioned dataflow interpreter) into decision tables + abstract evaluation of the importer / query code against a model database (own relational evaluator for the SQL subset used, in-memory file system, temp-file service; gffutils and sqlite3 never imported or run) + conjunctive-query comparison", "3 C05; 9.8"),
 "C06": ("coordinate predicate of every generated statement equivalent to the specification (both bounds) or inside the sandwich (one bound) under all orderings, bin pre-filter only outside bins()'s fallback domain, stored bin recomputed from the same feature's (start,end), exactly the restrictions asked for (strand is the caller's)",
         "results for concrete feature sets",
         "partitioned dataflow (static string analysis) over make_query/region + order-predicate decision on a complete grid", "3 C06"),
 "C07": ("dialect keys written by inference are read by reconstruction and declared; printing never mutates the shared dialect; _reconstruct evaluated for a symbolic mapping under 212 dialect configurations and compared token by token with the template the dialect denotes; that template fed back to _split_keyvals (dialect supplied and inferred, also with blanks and '=' inside quoted values, with literally escaped structural characters in values, escapes honoured and ignored): the mapping comes back -- escaped values as one decoded value exactly in gff3 dialects -- and inference reports the dialect it was written in; keys not listed by the dialect keep mapping order; column handling of feature_from_line/__unicode__",
         "byte-for-byte identity for arbitrary values (escapes and structural characters inside values beyond the templates), strict=False equality",
         "static string analysis (strings with holes, partitioned dataflow) of printer and parser: template round trip; set comparison of def/use keys", "3 C07; 9.7"),
 "C08": ("effective encode set (the constant the encoder tests membership in) covers the reserved characters and excludes blank/quote; encoder evaluated on a symbolic character: %XX upper-case exactly for members, identity otherwise, cached results independent of the run-time switch; encode/decode conditions decided by the printer template and the round trip with literal escapes under both switch settings; every string up to a length bound over the structural alphabet parses to (mapping of lists of strings, dialect) without raising; every constant-index subscript and fixed-arity unpack of the attribute parser and of feature_from_line covered by the abstract sequence length of its base (or an enclosing handler), mapping reads by named justification; no while/recursion",
         "that a printed feature re-parses to the same mapping for arbitrary values (string semantics)",
         "sequence-length abstract interpretation on the CFG (edge refinement, calling-context helper analysis) + abstract evaluation of the encoder + template round trip", "3 C08; 9.7"),
 "C09": ("the vote evaluated abstractly on small peeks (weight = number of attributes, per-key accumulation, ties to the first-seen value also when another value led in between, key order rebuilt first-seen, empty peek -> default); iterator constructor over dialect given/None x force_dialect_check (peek only without a dialect, supplied dialect verbatim, vote over the peek); every iterator class's peek(n) inspects the same number of items on streams and lists (sibling agreement); every yielded feature carries the iterator's dialect, attached before the transform; create_db hands the caller's or the iterator's dialect to the importer; the three entry points reach the one inference function; inference decisions by template round trip (inferred dialect == written dialect); key pattern == \\w+= on a separating corpus; parser never writes into the shared default; format routing",
         "that the full dictionary is recovered for every consistent input beyond the templates",
         "abstract evaluation (partitioned dataflow interpreter) on scenarios + template round trip + call-graph reachability + value provenance", "3 C09; 9.7"),
 "C10": ("a history create -> update (three lines, one unnamed) -> empty update -> add_relation (ids, Features) -> delete (id, Feature, list) -> update evaluated step by step against a model database and compared after every step with a reference model of features and relations; counters continue across updates, are stored and live, never recycle; backup copy exactly when make_backup and the database is a file, before any write; delete's statements per element; update hands the live counter object, dbfn, dialect and iterator to the importer and returns before any write when the source is empty; importer keeps the given counter object; counters written back OR REPLACE and reloaded; relations after a first and a second import (shared with C02)",
         "equality with the reference model for every history beyond the evaluated one; the '.bak' content after a failure part-way",
         "abstract evaluation of the importer / query code against a model database (own relational evaluator for the SQL subset used, in-memory file system, temp-file service; gffutils and sqlite3 never imported or run) along a history, compared with a reference model + abstract evaluation into event traces + effect closure over the resolved call graph", "3 C10; 9.8"),
 "C11": ("placeholders and arguments in lock-step in every partition of make_query's configuration space (exhaustive), filters bound to the requested values, order_by validated/translated alike in str and iterable form, ASC/DESC, count/distinct listings on the right column, exactly one WHERE (parse)",
         "sort results on concrete data (SQLite's sorter, collation, ties)",
         "partitioned dataflow (static string analysis) + SQL parsing of every generated statement", "3 C11"),
 "C12": ("bins.bins evaluated on a threshold grid (every place where some level's bin changes, both start conventions, range limits, stops straddling each level's next boundary; all pairs in the thorough tier) and compared with the scheme of the statement: result type per mode, fallback domain, single bin, bin set; when the code is within the shift-form subset the same obligations for every integer pair (interval + shift-normal-form abstract interpretation); constants = 5-level scheme; Feature.astuple() evaluated with a stale carried bin (the stored bin is bins(start, end), recomputed); every other single-bin computation pairs start and end of one record (value provenance, else evaluation)",
         "tightness ('no coarser than') beyond the grid when the for-all interpretation does not apply; soundness of overlap is argued in specs/bins_proof.md from the checked premises",
         "evaluation of the source on a complete threshold grid against an independent specification + interval/shift-normal-form abstract interpretation (when applicable) + value provenance", "3 C12; 9.8"),
 "C13": ("DataIterator dispatch table by abstract evaluation over every iterator class instance, string with from_string, string x exists x is_url, FeatureDB, iterable, generator (all wrapped with the same checklines/transform/dialect); peek evaluated on a one-shot generator, a one-shot iterator that is not a generator and a list (returns a prefix; afterwards the source still yields every item in order) for n = 0, 2, 10; file peek reads a fresh pass; transform applied only on the common iteration path and exactly once per item on the whole path of every iterator class, result replaces the item, falsy result skips; create_db hands the peeked iterator with checklines=0 to the importer; inspect counts each feature once, stops at the limit, counters by value/keys",
         "equality of databases over all seven forms and all checklines",
         "abstract evaluation (partitioned dataflow interpreter with one-shot stream values) on scenarios", "3 C13; 9.7"),
 "C14": ("line classification table: one pass of the file iterator evaluated per class of line followed by a sentinel (##FASTA and '>' stop, ## directive, # and empty skipped, others features incl. leading blank); terminators stripped before classification; directives stored without the leading ## in file order with repeats; iteration clears and refills the captured directive list in place (object identity), create_db hands that object to the importer, the importer keeps it; the directives seen are in place however the pass ends (##FASTA, '>' header, end of file); create() then FeatureDB(dbfn) evaluated on a model database: one row per directive in list order, read back in row order",
         "behaviour over all interleavings of concrete files (follows from the table and the identity rule)",
         "abstract evaluation (partitioned dataflow interpreter over a stream of representative lines) + object-identity tracking + parsed SQL + value provenance", "3 C14; 9.7"),
 "C15": ("interfeatures evaluated abstractly on neighbours 2/1/0/-1 bases apart and nested (gap = previous.end+1..next.start-1, suppressed iff start > end), three-feature lists, seqid changes (also right after a gap), strand pairs and triples, automatic/given type, attribute union through merge_attributes with numeric_sort, update_attributes, attribute_func, ID join, bin recomputed, inputs unchanged; splice sites per strand (two-base sites, labels) and introns; children queried at level 1 by type ordered by start",
         "the N-1 law and exact outputs over all ordered lists beyond the scenarios",
         "abstract evaluation (partitioned dataflow interpreter) on threshold scenarios of the order predicates", "3 C15; 9.7"),
 "C16": ("merge() evaluated abstractly on start-ordered lists (overlap, adjacency, one base apart, other seqid/strand/type, two runs and a single, nested member, mixed columns under custom criteria): partition of the inputs, min/max extents, fresh ids and counters, criteria called with (run so far, feature, components) and conjoined, inputs unchanged and head copied, constructor keywords within Feature.__init__ parameters, children attached, merged outputs re-mergeable, same objects same result; every shipped criterion and threshold factory evaluated on a grid complete for difference constraints == specification, reflexive, monotone; merge_all (one stored feature per multi-member run, level-1 relations or deletion, criteria forwarded) and children_bp (sum of lengths, union with merge=True)",
         "extents = interval union for every multiset beyond the scenarios",
         "abstract evaluation (partitioned dataflow interpreter) on threshold scenarios + difference-constraint grid decision", "3 C16; 9.7"),
 "C17": ("the container's own methods evaluated abstractly: scalars wrapped in a one-item list, lists/tuples stored as they are, update()/construction/feature[key]=value route through the wrap, nobody else writes the raw mapping; view with always_return_list on/off for one-item/two-item/tuple/empty values never changes what is stored; switch read only in the view (and what it calls) and in bed12's call closure, which is evaluated to leave the switch as found; symmetric JSON codec; merge_attributes on two mappings: sorted duplicate-free union, numeric order keeping different spellings, arguments untouched, nothing shared; __eq__/__ne__/__hash__/__str__ as functions of the printed line",
         "JSON identity for arbitrary Unicode (simplejson's behaviour)",
         "abstract evaluation (partitioned dataflow interpreter, dispatch to the package classes' own methods) + who-writes / who-reads rules", "3 C17; 9.7"),
 "C18": ("len = end - start + 1 and the stop/chrom aliases; sequence = FASTA[chrom][start-1:end], reverse-complemented iff use_strand and minus strand (six strand x flag cases); the twelve BED12 fields for a feature with exons and CDS (chromStart = start-1, thick bounds from thick or thin features, block sizes/starts/count, name/score/strand/rgb), no-thick and no-block cases, children queried ascending by start, always_return_list restored; ValueError when the first/last block does not span the feature; to_bed12; an id argument is looked up before it is used as a Feature in bed12/children_bp/to_bed12 (also without block children) and gives the same result as the Feature",
         "string contents of sequences (pyfaidx)",
         "abstract evaluation (partitioned dataflow interpreter with a summarised database) on concrete-coordinate scenarios", "3 C18; 9.7"),
 "C19": ("every CREATE TABLE unconditional; create() evaluated on an empty model database (tables, then rows) and over a database that already has the tables (raises, old rows kept); the creator constructor evaluated for force x (path / open connection) x (file exists or not) with all other options symbolic: the target is removed only under force, once, before connecting, and nothing else is; transitive effect set of every read-style method contains SELECT only (SQL assembled at run time resolved by abstract evaluation), built statements are SELECTs in every partition",
         "byte content of the file after a failed call (SQLite's behaviour for PRAGMAs and a failed script)",
         "effect closure over the resolved call graph (class-hierarchy analysis) + abstract evaluation of the constructor + parsed schema", "3 C19; 9.7"),
 "C20": ("both importers' create() evaluated against a model database with an in-memory file system and a temp-file service handing out one fresh name per request (_keep_tempfiles False/True/str, verbose off/on/debug, nothing to infer, no relations at all): every file written is one of the import's own tempfile-named files (no dir/prefix override), and when create() returns no intermediate file is left unless kept, after it was read back; DataIterator(from_string) temp file handed to a finalizer that unlinks its argument, removed when construction fails; every write-open effect of the import closure is one of those; no module-level store and no foreign file effect in the import closure",
         "identical results under every schedule (separate processes share no in-process state; OS/SQLite locking is outside the source)",
         "abstract evaluation of the importer / query code against a model database (own relational evaluator for the SQL subset used, in-memory file system, temp-file service; gffutils and sqlite3 never imported or run) + abstract evaluation into event traces + effect closure over the resolved call graph", "3 C20; 9.8"),
}

checks = []
for pid in sorted(P):
    dec, nodec, tech, ref = P[pid]
    checks.append({
        "property_id": pid,
        "quick_cmd": "/venv/bin/python -m gffsa check %s --tier quick" % pid,
        "thorough_cmd": "/venv/bin/python -m gffsa check %s --tier thorough" % pid,
        "evidence_file": "/verif/evidence/%s.json" % pid,
        "replay_cmd_template": "/venv/bin/python -m gffsa replay {path}",
        "engine": "gffsa",
        "level_claimed": {
            "category": "other",
            "text": "Static analysis of /repo's current source (gffutils is never imported or executed; where 'evaluated abstractly' is said, gffsa's own "
                    "partitioned dataflow interpreter walks the parsed source over symbolic values and threshold scenarios, forking on undecided tests). "
                    "Decides: " + dec + ". Does NOT decide: " + nodec + ". A pass means every decided clause holds on the "
                    "current tree; it is a necessary-condition verdict, not an observation of behaviour. The thorough tier adds the checker "
                    "self-test (mutants must fire, behaviour-preserving twins must stay silent) and widened finite spaces.",
            "design_ref": "DESIGN.md section " + ref,
        },
        "level_note": "Trusted: CPython ast, the gffsa engine (own CFG/dominators, SQL parser, abstract interpreters), the hand-written "
                      "specifications in gffsa/props and /verif/specs, documented SQLite/Python library semantics named in DESIGN.md section 2. "
                      "User-supplied callables are assumed effect-free; supplied dialects are assumed complete.",
        "technique": tech,
    })

manifest = {
    "version": 1,
    "setup_cmd": "/venv/bin/python -m compileall -q /verif/gffsa && /venv/bin/python -m gffsa selftest --fixtures-only",
    "hooks": {
        "guard": "DALER_GFFUTILS_VERIF",
        "enable": "no hooks: the checks parse /repo's working tree with ast on every run and never import or execute gffutils, so nothing "
                  "in the repository is instrumented; the guard name is reserved and unused",
        "baseline_off_cmd": "cd /repo && /venv/bin/python -m pytest -ra -q -p no:cacheprovider --timeout=900 --continue-on-collection-errors",
        "source_commits": [],
        "add_only": True,
    },
    "engines": [{
        "name": "gffsa",
        "path": "/verif/gffsa",
        "serves_properties": sorted(P),
        "kind_free_text": "repository-specific static analyser, pure standard library: source model with name/callee resolution, constant "
                          "folder, statement CFG with dominators/post-dominators, resolved call graph with effect summaries, partitioned "
                          "forward dataflow / abstract evaluator over the parsed source (strings with holes, symbolic objects, one-shot streams, "
                          "callee summaries), interprocedural value provenance, sequence-length abstract interpretation, SQLite-subset parser with "
                          "conjunctive-query normal form, interval/shift-normal-form abstract interpreter, small decision procedures",
    }],
    "checks": checks,
    "not_applicable": [],
    "notes": "All twenty properties are claimed at clause level (category 'other'); what each check does not decide is stated in its "
             "level_claimed.text and in DESIGN.md. known_findings.json lists the one recorded defect (F10, both importers) and twelve "
             "repaired ones ('fix:' commits in /repo). Exit codes: 0 pass / only listed known findings, 1 + VIOLATION line, 2 + "
             "ANALYSIS-ERROR (the analysis could not run: fail closed, never a silent pass).",
}
with open(os.path.join(HERE, "MANIFEST.json"), "w") as fh:
    json.dump(manifest, fh, indent=1)
print("wrote MANIFEST.json with %d checks" % len(checks))
