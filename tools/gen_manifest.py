#!/usr/bin/env python3
"""Regenerates /verif/MANIFEST.json from the table below."""
import json
import os

HERE = os.path.dirname(os.path.dirname(os.path.abspath(__file__)))

P = {
 "C01": ("storage-table agreement (CREATE TABLE/_INSERT/_SELECT/_UPDATE/astuple/Feature.__init__), one insert per parsed item on all CFG paths, symmetric order-preserving JSON codec, dialect plumbing iterator->meta->FeatureDB->_feature_returner (who-constructs), column constants of feature_from_line/__unicode__",
         "byte-identity of printed lines, iteration order without ORDER BY (SQLite scan order), re-import equivalence",
         "writer/reader table agreement + CFG must-pass-through + who-constructs rule", "3 C01"),
 "C02": ("level-1 relation insert shape (loop over whole Parent value, (parent, f.id, 1), OR IGNORE, after id assignment), level-2 closure = composition of two level-1 edges (conjunctive-query comparison), closure after population (dominance), children/parents = exact join with DISTINCT and correct binding in every partition",
         "'never its own relative' and behaviour under every permutation of lines (data-dependent)",
         "conjunctive-query normal form comparison + partitioned dataflow over query builders + CFG dominance", "3 C02"),
 "C03": ("the three per-line relation tuples (reaching definitions), pair/extent queries as conjunctive queries, writer/reader agreement of the derived-feature file, disable_infer_* as exact control dependences, derived collisions use 'merge', order-sensitive format routing table, guard excluding parent == child",
         "numeric extents for concrete files (aggregates computed by SQLite)",
         "reaching definitions + conjunctive-query comparison + decision-table extraction", "3 C03"),
 "C04": ("id derivation cascade (kinds, fall-through on miss, prefix slice from prefix length), multi-value rejection dominates first-value use, counter incremented before '<base>_<n>' (same shape in merge()), PRIMARY KEY(id) + plain INSERT, exact look-up raising FeatureNotFoundError, default id_spec per format",
         "numbering 'in input order' separately (follows from C01.R2 + R4)",
         "CFG dominance + decision-table extraction + parsed SQL", "3 C04"),
 "C05": ("dispatcher decision table (five strategies, unknown rejected), handler decision tables of both importers and their equality, compared-column set folds to 8 fixed columns minus force_merge_fields, set-dedup, forced columns comma-joined, candidate query as conjunctive query, duplicates bookkeeping, no relation insert on the discard path, (known finding) relations of a replaced row",
         "the outcome for every interleaving of collisions (history-dependent data)",
         "order-sensitive decision tables + sibling cross-check + value-sensitive structured path walk", "3 C05"),
 "C06": ("coordinate predicate of every generated statement equivalent to the specification (both bounds) or inside the sandwich (one bound) under all orderings, bin pre-filter only outside bins()'s fallback domain, stored bin recomputed from the same feature's (start,end), exactly the restrictions asked for (strand is the caller's)",
         "results for concrete feature sets",
         "partitioned dataflow (static string analysis) over make_query/region + order-predicate decision on a complete grid", "3 C06"),
 "C07": ("dialect keys written by inference are read by reconstruction and declared, separators longest-first, splitter/joiner literals agree, parsing layers and printing layers mirror each other in CFG order, column constants",
         "byte-for-byte identity for every line of the grammar, strict=False equality (inverse of a string transducer over unbounded values)",
         "set comparison of def/use keys + CFG ordering of layers", "3 C07"),
 "C08": ("encode set covers the reserved characters, encode condition == decode condition (truth table), encoder format %XX upper-case per character, every partial operation of the attribute parser discharged by a named justification, no while/recursion, values are lists of strings by construction",
         "that a printed feature re-parses to the same mapping (string semantics)",
         "guarded-partial-operation analysis (dominance, and-chains, split-result typing) + truth tables", "3 C08"),
 "C09": ("weighted vote shape (weight, accumulation, stable descending sort without secondary key, first-seen key order), dialect assignment dominates every yield, peek only without a supplied dialect, exactly three callers of the one inference function, inference decisions as (guard, value) pairs incl. the key pattern via re._parser, format routing",
         "that the full dictionary is recovered for every consistent input",
         "def-use + CFG dominance + call-graph who-may-call", "3 C09"),
 "C10": ("backup guard dominates every statement with a database-write effect in update/delete, DELETE statements parsed and bound to one id, counters flow live and are written back/reloaded, driver order by (post-)dominance, no write before the early return of an empty update, level-2 closure (shared with C02.R2), add_relation row",
         "equality with a reference model after every history",
         "effect closure over the resolved call graph + CFG dominance/post-dominance", "3 C10"),
 "C11": ("placeholders and arguments in lock-step in every partition of make_query's configuration space (exhaustive), filters bound to the requested values, order_by validated/translated alike in str and iterable form, ASC/DESC, count/distinct listings on the right column, exactly one WHERE (parse)",
         "sort results on concrete data (SQLite's sorter, collation, ties)",
         "partitioned dataflow (static string analysis) + SQL parsing of every generated statement", "3 C11"),
 "C12": ("constants = 5-level UCSC scheme, one=True returns an int on every reachable path for every coordinate pair (interval abstract interpretation), fallback domain == out-of-range domain on all threshold cells, per-level formulas equal the scheme (shift normal forms)",
         "tightness ('no coarser than'); soundness of overlap is argued in specs/bins_proof.md from the checked premises",
         "interval + shift-normal-form abstract interpretation with the level loop unrolled", "3 C12"),
 "C13": ("DataIterator dispatch table over seven input kinds, peek keeps every item and re-chains in order, single transform site with yield guarded by its result only, create_db re-uses the peeked iterator with checklines=0, inspect counts on every pass before the limit test",
         "equality of databases over all seven forms and all checklines",
         "order-sensitive decision table + CFG dominance / must-pass-through", "3 C13"),
 "C14": ("line classification table in cascade order, '##' strip from prefix length, alias rule on the directive list captured by create_db (no re-binding in iterator methods), persistence in list order and read-back",
         "behaviour over all interleavings of concrete files (follows from the table and the alias rule)",
         "order-sensitive decision table + alias (no-rebind) rule + parsed SQL", "3 C14"),
 "C15": ("net gap geometry previous.end+1..next.start-1 by affine slot tracking, suppression test == final start > end, yield in the seqid-change branch dead by constant propagation, strand/type/attribute rules, splice-site geometry and label table, level-1 exons ordered by start, no stores through inputs",
         "the N-1 law and exact outputs over all ordered lists",
         "affine slot tracking + constant propagation on the CFG + decision table", "3 C15"),
 "C16": ("partition typestate of merge() on every loop-body path (path enumeration), join test = all criteria on (run, feature), min/max extent updates, stores into the head dominated by the copy guard, id reset on run boundaries, splat keys within Feature.__init__ parameters, criteria == their specification and reflexive on a complete grid, merge_all / children_bp facts",
         "extents = interval union for every multiset; idempotence",
         "path enumeration with abstract typestate + difference-constraint grid decision", "3 C16"),
 "C17": ("only __setitem__ (after the list wrap) and __delitem__ write Attributes._d, always_return_list read only in the view (saved/restored in bed12), symmetric JSON codec, merge_attributes never stores through its arguments and deep-copies every value flow, equality/hash are functions of str(self)",
         "JSON identity for arbitrary Unicode (simplejson's behaviour)",
         "who-writes / who-reads rules + taint of argument aliases", "3 C17"),
 "C18": ("linear normal forms of every coordinate expression in __len__/sequence/bed12/to_bed12 equal the conventions, BED field order, span checks dominate the return, reverse-complement truth table, id-or-Feature parameters normalised before Feature use",
         "string contents of sequences (pyfaidx), exact BED lines",
         "linear normal form comparison + CFG dominance", "3 C18"),
 "C19": ("every CREATE TABLE unconditional and creation dominates population, force block is the only remover of the target and depends on `force` alone, transitive effect set of every read-style method contains SELECT only, built statements are SELECTs in every partition",
         "byte content of the file after a failed call (SQLite's behaviour for PRAGMAs and a failed script)",
         "effect closure over the resolved call graph (class-hierarchy analysis) + parsed schema", "3 C19"),
 "C20": ("temp files named by tempfile only, every delete=False temp file unlinked on all normal CFG paths (only _keep_tempfiles may bypass) or removed by a registered finalizer, no module-level store and no foreign file effect in the import closure",
         "identical results under every schedule / process count / start offset: separate processes share no in-process state to analyse, and OS/SQLite locking is outside the source (declared not decidable by this technique)",
         "acquire/release pairing on the CFG + effect footprint of the import call graph", "3 C20"),
}

checks = []
for pid in sorted(P):
    dec, nodec, tech, ref = P[pid]
    checks.append({
        "property_id": pid,
        "quick_cmd": "/venv/bin/python -m gffsa check %s --tier quick" % pid,
        "thorough_cmd": "/venv/bin/python -m gffsa check %s --tier thorough" % pid,
        "evidence_file": "/verif/evidence/%s.json" % pid,
        "replay_cmd_template": "/venv/bin/python -m gffsa replay {path}",
        "engine": "gffsa",
        "level_claimed": {
            "category": "other",
            "text": "Static analysis of /repo's current source (never executed). Decides the clauses whose truth is in the shape of the code on "
                    "every path/configuration: " + dec + ". Does NOT decide: " + nodec + ". A pass means every decided clause holds on the "
                    "current tree; it is a necessary-condition verdict, not an observation of behaviour. The thorough tier adds the checker "
                    "self-test (mutants must fire, behaviour-preserving twins must stay silent) and widened finite spaces.",
            "design_ref": "DESIGN.md section " + ref,
        },
        "level_note": "Trusted: CPython ast, the gffsa engine (own CFG/dominators, SQL parser, abstract interpreters), the hand-written "
                      "specifications in gffsa/props and /verif/specs, documented SQLite/Python library semantics named in DESIGN.md section 2. "
                      "User-supplied callables are assumed effect-free; supplied dialects are assumed complete.",
        "technique": tech,
    })

manifest = {
    "version": 1,
    "setup_cmd": "/venv/bin/python -m compileall -q /verif/gffsa && /venv/bin/python -m gffsa selftest --fixtures-only",
    "hooks": {
        "guard": "DALER_GFFUTILS_VERIF",
        "enable": "no hooks: the checks parse /repo's working tree with ast on every run and never import or execute gffutils, so nothing "
                  "in the repository is instrumented; the guard name is reserved and unused",
        "baseline_off_cmd": "cd /repo && /venv/bin/python -m pytest -ra -q -p no:cacheprovider --timeout=900 --continue-on-collection-errors",
        "source_commits": [],
        "add_only": True,
    },
    "engines": [{
        "name": "gffsa",
        "path": "/verif/gffsa",
        "serves_properties": sorted(P),
        "kind_free_text": "repository-specific static analyser, pure standard library: source model with name/callee resolution, constant "
                          "folder, statement CFG with dominators/post-dominators, resolved call graph with effect summaries, partitioned "
                          "forward dataflow (static string analysis) for the SQL builders, SQLite-subset parser with conjunctive-query "
                          "normal form, interval/shift-normal-form abstract interpreter, small decision procedures on extracted formulas",
    }],
    "checks": checks,
    "not_applicable": [],
    "notes": "All twenty properties are claimed at clause level (category 'other'); what each check does not decide is stated in its "
             "level_claimed.text and in DESIGN.md. known_findings.json lists the one recorded defect (F10, both importers) and eleven "
             "repaired ones ('fix:' commits in /repo). Exit codes: 0 pass / only listed known findings, 1 + VIOLATION line, 2 + "
             "ANALYSIS-ERROR (the analysis could not run: fail closed, never a silent pass).",
}
with open(os.path.join(HERE, "MANIFEST.json"), "w") as fh:
    json.dump(manifest, fh, indent=1)
print("wrote MANIFEST.json with %d checks" % len(checks))
