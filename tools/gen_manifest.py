#!/usr/bin/env python3
"""Regenerates /verif/MANIFEST.json from the table below."""
import json
import os

HERE = os.path.dirname(os.path.dirname(os.path.abspath(__file__)))

P = {
 "C01": ("storage-table agreement (CREATE TABLE/_INSERT/_SELECT/_UPDATE/astuple/Feature.__init__), one insert per parsed item on all CFG paths, symmetric order-preserving JSON codec, dialect plumbing iterator->meta->FeatureDB->_feature_returner (who-constructs), column constants of feature_from_line/__unicode__",
         "byte-identity of printed lines, iteration order without ORDER BY (SQLite scan order), re-import equivalence",
         "writer/reader table agreement + CFG must-pass-through + who-constructs rule", "3 C01"),
 "C02": ("level-1 relation rows by value provenance (parent column <- each value of the feature's whole Parent attribute, child <- the feature's final id, level 1, OR IGNORE, unconditional) through helpers and temporaries; every pass of the line loop that stored the feature passes the relation writer or a Parent-absence edge (CFG must-pass), id final before the writer; level-2 closure = composition of two level-1 edges (conjunctive-query comparison) driven by every feature id; closure file writer/reader agreement by provenance; closure after population; children/parents = exact join with DISTINCT and correct binding in every partition",
         "'never its own relative' and behaviour under every permutation of lines (data-dependent)",
         "interprocedural value provenance (reaching definitions + caller substitution) + CFG must-pass-through + conjunctive-query normal form comparison + partitioned dataflow over query builders", "3 C02; 9.7"),
 "C03": ("the three per-line relation tuples (reaching definitions), pair query as a conjunctive query, every field of the derived-feature record traced by provenance to the column of the extent query it comes from (MIN(start)/MAX(end)/strand/seqid of one row, id of the pair row, bin of its own extent, id under the configured key), writer/reader agreement of the derived-feature file, writes reachable exactly when the disable_infer_* flag is off (path conditions, three-valued over the four flag valuations), derived collisions use 'merge', format routing as a decision table by abstract evaluation of create_db/update over force x fmt x id_spec, guard excluding parent == child",
         "numeric extents for concrete files (aggregates computed by SQLite)",
         "value provenance + conjunctive-query comparison + path-condition evaluation + abstract evaluation (partitioned dataflow) of the routing functions", "3 C03; 9.7"),
 "C04": ("id derivation as a decision table: _id_handler evaluated abstractly for 22 id_spec/feature scenarios (string, ':field:', list with fall-through, dict by featuretype, callable truthy/None/empty/'autoincrement:<base>', multi-valued attribute rejected in every form, per-base counters); counter routine evaluated for start states; merge()'s id generator by provenance (<base>_<counters[base]> after an increment); PRIMARY KEY(id) + plain INSERT; db[key] evaluated for string/Feature key x absent/present row (exact look-up on the id, FeatureNotFoundError); default id_spec per format",
         "numbering 'in input order' separately (follows from C01.R2 + R4); id_spec forms outside the scenario table",
         "abstract evaluation (partitioned dataflow interpreter over the source, never executed) on a scenario table + value provenance + parsed SQL", "3 C04; 9.7"),
 "C05": ("dispatcher decision table by abstract evaluation of _do_merge over 30 scenarios (five strategies, unknown rejected, each fixed column differing with and without force_merge_fields, overlapping attribute sets, several candidates, a stored forced column that is already a joined set, the no-candidate path with its duplicates row); one pass of each importer's line loop evaluated per strategy with the statements it executes and their bound values (GFF and GTF tables equal; discarded newcomers write no relations, kept ones all of theirs under the final id); candidate query as conjunctive query; constructor rejects start/end; (known finding) relations of a replaced row",
         "the outcome for every interleaving of collisions beyond the scenarios (history-dependent data)",
         "abstract evaluation (partitioned dataflow interpreter, callee summaries) into decision tables + sibling cross-check + conjunctive-query comparison", "3 C05; 9.7"),
 "C06": ("coordinate predicate of every generated statement equivalent to the specification (both bounds) or inside the sandwich (one bound) under all orderings, bin pre-filter only outside bins()'s fallback domain, stored bin recomputed from the same feature's (start,end), exactly the restrictions asked for (strand is the caller's)",
         "results for concrete feature sets",
         "partitioned dataflow (static string analysis) over make_query/region + order-predicate decision on a complete grid", "3 C06"),
 "C07": ("dialect keys written by inference are read by reconstruction and declared; separators longest-first; printing never mutates the shared dialect; _reconstruct evaluated for a symbolic mapping under 212 dialect configurations and compared token by token with the template the dialect denotes; that template fed back to _split_keyvals (dialect supplied and inferred, also with blanks and '=' inside quoted values): the mapping comes back and inference reports the dialect it was written in; decode layer per value, never re-split, after the format is final; column handling of feature_from_line/__unicode__",
         "byte-for-byte identity for arbitrary values (escapes and structural characters inside values beyond the templates), strict=False equality",
         "static string analysis (strings with holes, partitioned dataflow) of printer and parser: template round trip; set comparison of def/use keys", "3 C07; 9.7"),
 "C08": ("effective encode set (the constant the encoder tests membership in) covers the reserved characters and excludes blank/quote; encoder evaluated on a symbolic character: %XX upper-case exactly for members, identity otherwise, cache consistent; encode condition == decode condition; printer/parser template round trip; every constant-index subscript and fixed-arity unpack of the attribute parser and of feature_from_line covered by the abstract sequence length of its base (or an enclosing handler), mapping reads by named justification; no while/recursion; values are lists",
         "that a printed feature re-parses to the same mapping for arbitrary values (string semantics)",
         "sequence-length abstract interpretation on the CFG (edge refinement, calling-context helper analysis) + abstract evaluation of the encoder + template round trip", "3 C08; 9.7"),
 "C09": ("the vote evaluated abstractly on small peeks (weight = number of attributes, per-key accumulation, ties to the first-seen value also when another value led in between, key order rebuilt first-seen, empty peek -> default); iterator constructor over dialect given/None x force_dialect_check (peek only without a dialect, supplied dialect verbatim, vote over the peek); every yielded feature carries the iterator's dialect, attached before the transform; create_db hands the caller's or the iterator's dialect to the importer; the three entry points reach the one inference function; inference decisions by template round trip (inferred dialect == written dialect); key pattern == \\w+= on a separating corpus; parser never writes into the shared default; format routing",
         "that the full dictionary is recovered for every consistent input beyond the templates",
         "abstract evaluation (partitioned dataflow interpreter) on scenarios + template round trip + call-graph reachability + value provenance", "3 C09; 9.7"),
 "C10": ("update/delete evaluated abstractly for make_backup x (database is a file / a connection): exactly one copy dbfn -> dbfn.bak iff both hold (also with further keyword arguments), before any event that can write; delete executes per element one DELETE on features by id and one on relations by parent-or-child, bound to the element's id (Feature -> its id), nothing else, committed; update hands the live counter object, dbfn, dialect and the built iterator to the importer, runs populate -> relations -> finalize, returns before any write when the source is empty; importer keeps the given counter object (no copy, also when empty); counters written back OR REPLACE and reloaded; level-2 closure (shared with C02.R2); add_relation row for Feature and id arguments",
         "equality with a reference model after every history",
         "abstract evaluation (partitioned dataflow interpreter) into event traces + effect closure over the resolved call graph + value provenance", "3 C10; 9.7"),
 "C11": ("placeholders and arguments in lock-step in every partition of make_query's configuration space (exhaustive), filters bound to the requested values, order_by validated/translated alike in str and iterable form, ASC/DESC, count/distinct listings on the right column, exactly one WHERE (parse)",
         "sort results on concrete data (SQLite's sorter, collation, ties)",
         "partitioned dataflow (static string analysis) + SQL parsing of every generated statement", "3 C11"),
 "C12": ("constants = 5-level UCSC scheme, one=True returns an int on every reachable path for every coordinate pair (interval abstract interpretation), fallback domain == out-of-range domain on all threshold cells, per-level formulas equal the scheme (shift normal forms)",
         "tightness ('no coarser than'); soundness of overlap is argued in specs/bins_proof.md from the checked premises",
         "interval + shift-normal-form abstract interpretation with the level loop unrolled", "3 C12"),
 "C13": ("DataIterator dispatch table by abstract evaluation over every iterator class instance, string with from_string, string x exists x is_url, FeatureDB, iterable, generator (all wrapped with the same checklines/transform/dialect); peek evaluated on a one-shot stream and on a list (returns a prefix; afterwards the source still yields every item in order) for n = 0, 2, 10; file peek reads a fresh pass; transform applied once per item at one site, result replaces the item, falsy result skips; create_db hands the peeked iterator with checklines=0 to the importer; inspect counts each feature once, stops at the limit, counters by value/keys",
         "equality of databases over all seven forms and all checklines",
         "abstract evaluation (partitioned dataflow interpreter with one-shot stream values) on scenarios", "3 C13; 9.7"),
 "C14": ("line classification table: one pass of the file iterator evaluated per class of line followed by a sentinel (##FASTA and '>' stop, ## directive, # and empty skipped, others features incl. leading blank); terminators stripped before classification; directives stored without the leading ## in file order with repeats; iteration clears and refills the captured directive list in place (object identity), create_db hands that object to the importer, the importer keeps it, _finalize writes one row per directive in list order; read-back in row order",
         "behaviour over all interleavings of concrete files (follows from the table and the identity rule)",
         "abstract evaluation (partitioned dataflow interpreter over a stream of representative lines) + object-identity tracking + parsed SQL + value provenance", "3 C14; 9.7"),
 "C15": ("interfeatures evaluated abstractly on neighbours 2/1/0/-1 bases apart and nested (gap = previous.end+1..next.start-1, suppressed iff start > end), three-feature lists, seqid changes (also right after a gap), strand pairs and triples, automatic/given type, attribute union through merge_attributes with numeric_sort, update_attributes, attribute_func, ID join, bin recomputed, inputs unchanged; splice sites per strand (two-base sites, labels) and introns; children queried at level 1 by type ordered by start",
         "the N-1 law and exact outputs over all ordered lists beyond the scenarios",
         "abstract evaluation (partitioned dataflow interpreter) on threshold scenarios of the order predicates", "3 C15; 9.7"),
 "C16": ("merge() evaluated abstractly on start-ordered lists (overlap, adjacency, one base apart, other seqid/strand/type, two runs and a single, nested member, mixed columns under custom criteria): partition of the inputs, min/max extents, fresh ids and counters, criteria called with (run so far, feature, components) and conjoined, inputs unchanged and head copied, constructor keywords within Feature.__init__ parameters, children attached, merged outputs re-mergeable, same objects same result; every shipped criterion and threshold factory evaluated on a grid complete for difference constraints == specification, reflexive, monotone; merge_all (one stored feature per multi-member run, level-1 relations or deletion, criteria forwarded) and children_bp (sum of lengths, union with merge=True)",
         "extents = interval union for every multiset beyond the scenarios",
         "abstract evaluation (partitioned dataflow interpreter) on threshold scenarios + difference-constraint grid decision", "3 C16; 9.7"),
 "C17": ("the container's own methods evaluated abstractly: scalars wrapped in a one-item list, lists/tuples stored as they are, update()/construction/feature[key]=value route through the wrap, nobody else writes the raw mapping; view with always_return_list on/off for one-item/two-item/tuple/empty values never changes what is stored; switch read only in the view, saved/restored by bed12; symmetric JSON codec; merge_attributes on two mappings: sorted duplicate-free union, numeric order keeping different spellings, arguments untouched, nothing shared; __eq__/__ne__/__hash__/__str__ as functions of the printed line",
         "JSON identity for arbitrary Unicode (simplejson's behaviour)",
         "abstract evaluation (partitioned dataflow interpreter, dispatch to the package classes' own methods) + who-writes / who-reads rules", "3 C17; 9.7"),
 "C18": ("len = end - start + 1 and the stop/chrom aliases; sequence = FASTA[chrom][start-1:end], reverse-complemented iff use_strand and minus strand (six strand x flag cases); the twelve BED12 fields for a feature with exons and CDS (chromStart = start-1, thick bounds from thick or thin features, block sizes/starts/count, name/score/strand/rgb), no-thick and no-block cases, children queried ascending by start, always_return_list restored; ValueError when the first/last block does not span the feature; to_bed12; an id argument is looked up before it is used as a Feature in bed12/children_bp/to_bed12 (also without block children) and gives the same result as the Feature",
         "string contents of sequences (pyfaidx)",
         "abstract evaluation (partitioned dataflow interpreter with a summarised database) on concrete-coordinate scenarios", "3 C18; 9.7"),
 "C19": ("every CREATE TABLE unconditional and creation dominates population; the creator constructor evaluated for force x (path / open connection) x (file exists or not) with all other options symbolic: the target is removed only under force, once, before connecting, and nothing else is; transitive effect set of every read-style method contains SELECT only (SQL assembled at run time resolved by abstract evaluation), built statements are SELECTs in every partition",
         "byte content of the file after a failed call (SQLite's behaviour for PRAGMAs and a failed script)",
         "effect closure over the resolved call graph (class-hierarchy analysis) + abstract evaluation of the constructor + parsed schema", "3 C19; 9.7"),
 "C20": ("the routines that create temp files (_update_relations of both importers, DataIterator(from_string)) evaluated abstractly with symbolic verbose, empty-loop forks and _keep_tempfiles False/True/str: temp files named by tempfile only (no dir/prefix), only tempfile-derived paths opened for writing, each delete=False file unlinked on every returning path after the last write (unless kept) or handed to a finalizer that unlinks its argument, removed when construction fails; every write-open effect of the import closure is one of those; no module-level store and no foreign file effect in the import closure",
         "identical results under every schedule / process count / start offset: separate processes share no in-process state to analyse, and OS/SQLite locking is outside the source (declared not decidable by this technique)",
         "abstract evaluation (partitioned dataflow interpreter) into event traces + effect footprint of the import call graph", "3 C20; 9.7"),
}

checks = []
for pid in sorted(P):
    dec, nodec, tech, ref = P[pid]
    checks.append({
        "property_id": pid,
        "quick_cmd": "/venv/bin/python -m gffsa check %s --tier quick" % pid,
        "thorough_cmd": "/venv/bin/python -m gffsa check %s --tier thorough" % pid,
        "evidence_file": "/verif/evidence/%s.json" % pid,
        "replay_cmd_template": "/venv/bin/python -m gffsa replay {path}",
        "engine": "gffsa",
        "level_claimed": {
            "category": "other",
            "text": "Static analysis of /repo's current source (gffutils is never imported or executed; where 'evaluated abstractly' is said, gffsa's own "
                    "partitioned dataflow interpreter walks the parsed source over symbolic values and threshold scenarios, forking on undecided tests). "
                    "Decides: " + dec + ". Does NOT decide: " + nodec + ". A pass means every decided clause holds on the "
                    "current tree; it is a necessary-condition verdict, not an observation of behaviour. The thorough tier adds the checker "
                    "self-test (mutants must fire, behaviour-preserving twins must stay silent) and widened finite spaces.",
            "design_ref": "DESIGN.md section " + ref,
        },
        "level_note": "Trusted: CPython ast, the gffsa engine (own CFG/dominators, SQL parser, abstract interpreters), the hand-written "
                      "specifications in gffsa/props and /verif/specs, documented SQLite/Python library semantics named in DESIGN.md section 2. "
                      "User-supplied callables are assumed effect-free; supplied dialects are assumed complete.",
        "technique": tech,
    })

manifest = {
    "version": 1,
    "setup_cmd": "/venv/bin/python -m compileall -q /verif/gffsa && /venv/bin/python -m gffsa selftest --fixtures-only",
    "hooks": {
        "guard": "DALER_GFFUTILS_VERIF",
        "enable": "no hooks: the checks parse /repo's working tree with ast on every run and never import or execute gffutils, so nothing "
                  "in the repository is instrumented; the guard name is reserved and unused",
        "baseline_off_cmd": "cd /repo && /venv/bin/python -m pytest -ra -q -p no:cacheprovider --timeout=900 --continue-on-collection-errors",
        "source_commits": [],
        "add_only": True,
    },
    "engines": [{
        "name": "gffsa",
        "path": "/verif/gffsa",
        "serves_properties": sorted(P),
        "kind_free_text": "repository-specific static analyser, pure standard library: source model with name/callee resolution, constant "
                          "folder, statement CFG with dominators/post-dominators, resolved call graph with effect summaries, partitioned "
                          "forward dataflow / abstract evaluator over the parsed source (strings with holes, symbolic objects, one-shot streams, "
                          "callee summaries), interprocedural value provenance, sequence-length abstract interpretation, SQLite-subset parser with "
                          "conjunctive-query normal form, interval/shift-normal-form abstract interpreter, small decision procedures",
    }],
    "checks": checks,
    "not_applicable": [],
    "notes": "All twenty properties are claimed at clause level (category 'other'); what each check does not decide is stated in its "
             "level_claimed.text and in DESIGN.md. known_findings.json lists the one recorded defect (F10, both importers) and twelve "
             "repaired ones ('fix:' commits in /repo). Exit codes: 0 pass / only listed known findings, 1 + VIOLATION line, 2 + "
             "ANALYSIS-ERROR (the analysis could not run: fail closed, never a silent pass).",
}
with open(os.path.join(HERE, "MANIFEST.json"), "w") as fh:
    json.dump(manifest, fh, indent=1)
print("wrote MANIFEST.json with %d checks" % len(checks))
