#!/bin/sh
# usage: tools/try_patch.sh <seeded dir name, e.g. seeded_twins/C02-8> [PID ...]
# Applies the patch to a scratch copy of the package (never /repo), runs the given checks there with full output, removes the copy.
d="$1"; shift
tmp=$(mktemp -d /tmp/gffsa-try-XXXXXX)
cp -r /repo/gffutils "$tmp/gffutils"; rm -rf "$tmp/gffutils/test"
(cd "$tmp" && git apply --exclude='gffutils/test/*' "/verif/$d/patch.diff") || { echo "patch does not apply"; rm -rf "$tmp"; exit 3; }
pids="$*"; [ -z "$pids" ] && pids="C01 C02 C03 C04 C05 C06 C07 C08 C09 C10 C11 C12 C13 C14 C15 C16 C17 C18 C19 C20"
cd /verif
for p in $pids; do
  out=$(/venv/bin/python -m gffsa check $p --no-write --root "$tmp" 2>&1); code=$?
  echo "== $p exit=$code"
  if [ $code -ne 0 ]; then echo "$out" | grep -vE "^KNOWN" | head -${LINES_MAX:-14}; fi
done
[ -n "$KEEP" ] && echo "kept $tmp" || rm -rf "$tmp"
