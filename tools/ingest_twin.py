#!/usr/bin/env python3
"""usage: tools/ingest_twin.py <PID> <1|2|...> [--src DIR]
Verifies a behaviour-preserving refactoring produced by an independent agent
(suite keeps its 74 baseline passes, the agent's property demo passes with it)
and records what every check says about it under /verif/seeded_twins/<PID>-<n>/.
An exit-1 report is a FALSE ALARM of the check, an exit-2 report a fail-closed."""
import json
import os
import shutil
import subprocess
import sys
import tempfile

sys.path.insert(0, os.path.dirname(os.path.abspath(__file__)))
from ingest_seed import sh, suite  # noqa


def main():
    pid, n = sys.argv[1], sys.argv[2]
    src = "/tmp/wt_%s" % pid
    if "--src" in sys.argv:
        src = sys.argv[sys.argv.index("--src") + 1]
    patch = os.path.join(src, "twin_%s.diff" % n)
    demo = os.path.join(src, "demo.py")
    if not os.path.exists(patch) and os.path.exists(os.path.join(src, "patch.diff")):
        patch = os.path.join(src, "patch.diff")
    assert os.path.exists(patch) and os.path.exists(demo), "missing deliverables in %s" % src
    meta = {"property": pid, "variant": n, "kind": "behaviour-preserving refactoring",
            "source": "independent sub-agent given only the property text and a scratch worktree", "ran": []}
    dst = "/verif/seeded_twins/%s-%s" % (pid, n)
    if "--recheck" not in sys.argv:
        wt = tempfile.mkdtemp(prefix="twinverify-")
        os.rmdir(wt)
        sh("git -C /repo worktree add -q %s HEAD" % wt)
        try:
            shutil.copy(demo, os.path.join(wt, "demo.py"))
            c, o = sh("git apply %s" % patch, cwd=wt)
            if c != 0:
                print("PATCH DOES NOT APPLY", o)
                return 2
            missing = suite(wt)
            c1, o1 = sh("/venv/bin/python demo.py", cwd=wt, timeout=900)
            meta["ran"].append({"cmd": "pinned suite with the refactoring", "baseline_tests_lost": missing})
            meta["ran"].append({"cmd": "property demo with the refactoring", "exit": c1, "tail": o1[-300:]})
            meta["files_changed"] = sh("git diff --stat", cwd=wt)[1].strip().splitlines()
        finally:
            sh("git -C /repo worktree remove --force %s" % wt)
            shutil.rmtree(wt, ignore_errors=True)
        valid = (c1 == 0 and not missing)
        meta["valid"] = valid
        print("suite lost=%s demo=%d -> %s" % (missing, c1, "VALID" if valid else "REJECTED"))
        if not valid:
            return 1
    else:
        meta = json.load(open(os.path.join(dst, "meta.json")))
    from ingest_seed import run_checks_on_copy
    results = run_checks_on_copy(patch)
    first = meta.get("first_run")
    meta["checks_reporting"] = results
    meta["false_alarms"] = sorted(k for k, v in results.items() if v["exit"] == 1)
    meta["fail_closed"] = sorted(k for k, v in results.items() if v["exit"] == 2)
    meta["first_run"] = first or {"false_alarms": meta["false_alarms"], "fail_closed": meta["fail_closed"]}
    notes = os.path.join(src, "NOTES.md")
    if os.path.exists(notes):
        meta["agent_notes"] = open(notes).read()[:6000]
    os.makedirs(dst, exist_ok=True)
    if os.path.abspath(patch) != os.path.abspath(os.path.join(dst, "patch.diff")):
        shutil.copy(patch, os.path.join(dst, "patch.diff"))
        shutil.copy(demo, os.path.join(dst, "demo.py"))
    json.dump(meta, open(os.path.join(dst, "meta.json"), "w"), indent=1)
    print("%s-%s: false alarms %s ; fail-closed %s" % (pid, n, meta["false_alarms"], meta["fail_closed"]))
    for k, v in results.items():
        for l in v["report"][:3]:
            print("   ", k, l[:210])
    return 0


if __name__ == "__main__":
    sys.exit(main())
