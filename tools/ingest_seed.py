#!/usr/bin/env python3
"""usage: tools/ingest_seed.py <PID> <A|B|...> [--src /tmp/wt_<PID>]
Verifies a seeded change produced by an independent agent and records it under
/verif/seeded/<PID>-<X>/ :
  1. fresh scratch worktree of /repo HEAD; demo passes there;
  2. apply the patch; pinned suite still has its 74 baseline passes; demo FAILS;
  3. apply the patch to a scratch copy of the package and run every check on it (--root; no evidence written);
  4. write patch.diff, demo.py, meta.json (what was run and what each check said).
Never commits anything to /repo."""
import json
import os
import shutil
import subprocess
import sys
import tempfile
import xml.etree.ElementTree as ET

BASE = set(json.load(open("/root/.vp/BASELINE.json"))["stable_pass"])


def sh(cmd, cwd=None, timeout=1800):
    p = subprocess.run(cmd, shell=True, cwd=cwd, stdout=subprocess.PIPE, stderr=subprocess.STDOUT, text=True, timeout=timeout)
    return p.returncode, p.stdout


def suite(cwd):
    xml = os.path.join(cwd, "_suite.xml")
    sh("/venv/bin/python -m pytest -q -p no:cacheprovider --timeout=900 --continue-on-collection-errors --junitxml=%s" % xml, cwd=cwd)
    ok = set()
    if os.path.exists(xml):
        for tc in ET.parse(xml).iter("testcase"):
            if not any(c.tag in ("failure", "error", "skipped") for c in tc):
                ok.add(tc.get("classname") + "::" + tc.get("name"))
        os.remove(xml)
    return sorted(BASE - ok)


def run_checks_on_copy(patch, checks=None):
    sc = tempfile.mkdtemp(prefix="ingest-sc-")
    results = {}
    try:
        shutil.copytree("/repo/gffutils", os.path.join(sc, "gffutils"))
        sh("git init -q .", cwd=sc)
        c, o = sh("git apply %s" % patch, cwd=sc)
        assert c == 0, "patch does not apply to a copy of the package: %s" % o
        for i in range(1, 21):
            p = "C%02d" % i
            if checks and p not in checks:
                continue
            code, out = sh("/venv/bin/python -m gffsa check %s --no-write --root %s" % (p, sc), cwd="/verif")
            if code != 0:
                lines = [l.replace(sc, "<copy>") for l in out.splitlines() if l.startswith(("VIOLATION", "ANALYSIS-ERROR", "  gffutils", "  obligation"))]
                results[p] = {"exit": code, "report": lines[:9]}
    finally:
        shutil.rmtree(sc, ignore_errors=True)
    return results


def main():
    pid, x = sys.argv[1], sys.argv[2]
    src = "/tmp/wt_%s" % pid
    if "--src" in sys.argv:
        src = sys.argv[sys.argv.index("--src") + 1]
    patch = os.path.join(src, "seed_%s.diff" % x)
    demo = os.path.join(src, "demo_%s.py" % x)
    if not os.path.exists(patch) and os.path.exists(os.path.join(src, "patch.diff")):
        patch, demo = os.path.join(src, "patch.diff"), os.path.join(src, "demo.py")
    assert os.path.exists(patch) and os.path.exists(demo), "missing deliverables in %s" % src
    meta = {"property": pid, "variant": x, "source": "independent sub-agent given only the property text and a scratch worktree", "ran": []}
    wt = tempfile.mkdtemp(prefix="seedverify-")
    os.rmdir(wt)
    sh("git -C /repo worktree add -q %s HEAD" % wt)
    try:
        shutil.copy(demo, os.path.join(wt, "demo.py"))
        c0, o0 = sh("/venv/bin/python demo.py", cwd=wt, timeout=600)
        meta["ran"].append({"cmd": "demo on unmodified tree", "exit": c0, "tail": o0[-300:]})
        c, o = sh("git apply %s" % patch, cwd=wt)
        if c != 0:
            print("PATCH DOES NOT APPLY", o)
            return 2
        missing = suite(wt)
        meta["ran"].append({"cmd": "pinned suite with the change", "baseline_tests_lost": missing})
        c1, o1 = sh("/venv/bin/python demo.py", cwd=wt, timeout=600)
        meta["ran"].append({"cmd": "demo with the change", "exit": c1, "tail": o1[-400:]})
        meta["files_changed"] = sh("git diff --stat", cwd=wt)[1].strip().splitlines()
    finally:
        sh("git -C /repo worktree remove --force %s" % wt)
        shutil.rmtree(wt, ignore_errors=True)
    valid = (c0 == 0 and c1 != 0 and not missing)
    meta["valid"] = valid
    print("demo clean=%d demo changed=%d suite lost=%s -> %s" % (c0, c1, missing, "VALID" if valid else "REJECTED"))
    if not valid:
        return 1
    # ---- run the checks on a scratch copy of the package with the patch applied (/repo itself is not touched)
    results = run_checks_on_copy(patch)
    meta["checks_reporting"] = results
    meta["detected_by_own_property"] = results.get(pid, {}).get("exit") == 1
    meta["detected_by"] = sorted(k for k, v in results.items() if v["exit"] == 1)
    meta["analysis_errors"] = sorted(k for k, v in results.items() if v["exit"] == 2)
    notes = os.path.join(src, "NOTES.md")
    if os.path.exists(notes):
        meta["agent_notes"] = open(notes).read()[:6000]
    dst = "/verif/seeded/%s-%s" % (pid, x)
    os.makedirs(dst, exist_ok=True)
    old_meta = os.path.join(dst, "meta.json")
    if os.path.exists(old_meta):
        om = json.load(open(old_meta))
        first = om.get("first_run") or {"detected_by_own_property": om.get("detected_by_own_property"), "detected_by": om.get("detected_by"),
                                        "analysis_errors": om.get("analysis_errors")}
        meta["first_run"] = first
    else:
        meta["first_run"] = {"detected_by_own_property": meta["detected_by_own_property"], "detected_by": meta["detected_by"], "analysis_errors": meta["analysis_errors"]}
    if os.path.exists(os.path.join(dst, "patch.diff")) and "--src" not in sys.argv and not os.path.exists(patch):
        pass
    if os.path.abspath(patch) != os.path.abspath(os.path.join(dst, "patch.diff")):
        shutil.copy(patch, os.path.join(dst, "patch.diff"))
        shutil.copy(demo, os.path.join(dst, "demo.py"))
    if "agent_notes" not in meta and os.path.exists(old_meta):
        meta["agent_notes"] = json.load(open(old_meta)).get("agent_notes", "")
    json.dump(meta, open(os.path.join(dst, "meta.json"), "w"), indent=1)
    print("own property %s: %s ; detected by %s ; analysis errors %s" % (pid, "DETECTED" if meta["detected_by_own_property"] else "MISSED",
                                                                      meta["detected_by"], meta["analysis_errors"]))
    for k, v in results.items():
        for l in v["report"][:4]:
            print("   ", k, l[:200])
    return 0


if __name__ == "__main__":
    sys.exit(main())
